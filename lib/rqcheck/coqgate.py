"""The proof side of a check: hygiene of the whole development, re-check of the property's
theorem file, and the axioms each of its theorems depends on (Print Assumptions)."""
import os, re, subprocess, glob
from . import build

FORBIDDEN = [r"\bAdmitted\b", r"\badmit\b", r"\bAxiom\b", r"\bAxioms\b", r"\bParameter\b", r"\bParameters\b",
             r"\bConjecture\b", r"\bConjectures\b", r"Admit\s+Obligations", r"\bgive_up\b",
             r"Unset\s+Guard", r"bypass_check", r"Unset\s+Positivity", r"Unset\s+Universe",
             r"type-in-type", r"impredicative-set", r"Unset\s+Strict"]
SECTION_ONLY = [r"\bVariable\b", r"\bVariables\b", r"\bHypothesis\b", r"\bHypotheses\b", r"\bContext\b"]

# axioms declared by the standard library that a theorem may depend on (named in the trusted base)
ALLOWED_AXIOMS = {
    "ClassicalDedekindReals.sig_forall_dec", "ClassicalDedekindReals.sig_not_dec",
    "FunctionalExtensionality.functional_extensionality_dep", "Classical_Prop.classic",
}


def strip_comments(src):
    out, depth, i = [], 0, 0
    while i < len(src):
        if src.startswith("(*", i):
            depth += 1; i += 2
        elif src.startswith("*)", i) and depth > 0:
            depth -= 1; i += 2
        else:
            if depth == 0:
                out.append(src[i])
            elif src[i] == "\n":
                out.append("\n")
            i += 1
    return "".join(out)


def hygiene():
    """Scan every .v file of the development; return a list of offending (file, line, text)."""
    bad = []
    files = glob.glob(os.path.join(build.COQ, "**", "*.v"), recursive=True)
    for f in files:
        src = strip_comments(open(f).read())
        depth = 0
        for n, line in enumerate(src.split("\n"), 1):
            if re.match(r"\s*(Section|Module)\s+\w+", line) and not re.match(r"\s*Module\s+\w+\s*:=", line):
                depth += 1
            if re.match(r"\s*End\s+\w+\s*\.", line):
                depth = max(0, depth - 1)
            for pat in FORBIDDEN:
                if re.search(pat, line):
                    bad.append((os.path.relpath(f, build.ROOT), n, line.strip()))
            if depth == 0:
                for pat in SECTION_ONLY:
                    if re.search(pat, line):
                        bad.append((os.path.relpath(f, build.ROOT), n, line.strip()))
    proj = open(os.path.join(build.COQ, "_CoqProject")).read()
    for pat in [r"type-in-type", r"impredicative-set", r"-vos", r"bypass"]:
        if re.search(pat, proj):
            bad.append(("coq/_CoqProject", 0, pat))
    return bad, len(files)


def check_property_file(pid):
    """Re-compile Properties/<pid>.v against the built development and parse its output.
    Returns dict(theorems=[(name, axioms or [])], ok=bool, log=str)."""
    path = os.path.join(build.COQ, "theories", "Properties", pid + ".v")
    if not os.path.exists(path):
        return dict(ok=False, theorems=[], log="no theorem file for " + pid, n_theorems=0)
    tmp = os.path.join(build.CACHE, "tmp")
    os.makedirs(tmp, exist_ok=True)
    cmd = ["coqc", "-Q", os.path.join(build.COQ, "theories"), "RQ", "-o", os.path.join(tmp, pid + ".vo"), path]
    p = subprocess.run(["timeout", "900"] + cmd, stdout=subprocess.PIPE, stderr=subprocess.STDOUT, text=True)
    src = strip_comments(open(path).read())
    names = re.findall(r"^\s*(?:Theorem|Lemma|Corollary)\s+(\w+)", src, re.M)
    printed = re.findall(r"Print\s+Assumptions\s+(\w+)\s*\.", src)
    # split the output into one block per Print Assumptions, in order
    blocks = re.split(r"(?=Closed under the global context|Axioms:)", p.stdout)
    blocks = [b for b in blocks if b.startswith("Closed under") or b.startswith("Axioms:")]
    res = []
    ok = p.returncode == 0 and len(blocks) == len(printed)
    for name, b in zip(printed, blocks):
        if b.startswith("Closed under"):
            res.append((name, []))
        else:
            # every line of the block that starts in column 0 with an identifier names an axiom
            ax = [m for m in re.findall(r"^([A-Za-z_][\w.']*)", b, re.M) if m != "Axioms"]
            res.append((name, ax))
            for a in ax:
                if a not in ALLOWED_AXIOMS:
                    ok = False
    # every theorem of a property file must have its assumptions printed
    missing = [n for n in names if n not in printed and not n.endswith("_example")]
    return dict(ok=ok, theorems=res, log=p.stdout[-3000:] if p.returncode != 0 else "", n_theorems=len(names),
                names=names, unprinted=missing, cmd=" ".join(cmd))


def coqchk(pid):
    """Independent re-check of the compiled property file and everything it depends on."""
    cmd = "cd %s && timeout 3000 coqchk -silent -o -Q theories RQ RQ.Properties.%s" % (build.COQ, pid)
    rc, out = build.sh(cmd, timeout=3100)
    return rc == 0, out[-3000:]
