"""Shared machinery of every check: build, proof gate, correspondence run, verdicts, evidence."""
import json, os, sys, time, random, hashlib
from . import build, coqgate

ROOT = build.ROOT
EVID = os.path.join(ROOT, "evidence")
REPLAYS = os.path.join(EVID, "replays")
KNOWN = os.path.join(ROOT, "KNOWN_FINDINGS.json")

TRUSTED_BASE = [
    "Coq 8.16.1 kernel (coqc; vm_compute used for finite-domain lemmas, examples and refutation witnesses; native_compute not used)",
    "hand-written Gallina model of the raqote code under coq/theories (modelled, not translated)",
    "correspondence check: Rust harness (harness/) linked against /repo working tree + OCaml driver of the extracted model + bin/check comparison",
    "Coq extraction to OCaml with ExtrOcamlBasic only (bool, option, unit, list, prod, sumbool, sumor; andb/orb inlined); OCaml 4.13.1 compiler; ocaml/driver.ml parsing/printing",
    "sw-composite 0.7.16, euclid 0.22.14, lyon_geom 1.0.x: dependencies outside /repo, modelled (pixel arithmetic, matrices) or used as oracles (flattening, arcs), validated by correspondence",
    "IEEE-754 binary32 arithmetic of the executable model: Flocq 4; theorems whose statement mentions an f32-carrying type inherit the 4 standard-library axioms Flocq depends on (listed per theorem under coverage.theorems), all other theorems are closed under the global context",
    "rustc/cargo, the case generators and shrinker in lib/rqcheck",
]


class Ctx:
    def __init__(self, pid, tier, seed):
        self.pid, self.tier, self.seed = pid, tier, seed
        self.t0 = time.time()
        self.violations = []      # (replay_path, note, found_input: bool)
        self.known_hits = {}      # what -> count
        self.notes = []
        self.cov = {}
        self.rng = random.Random(seed)

    def log(self, *a):
        print(*a, flush=True)

    def replay_path(self, tag):
        os.makedirs(REPLAYS, exist_ok=True)
        return os.path.join(REPLAYS, "%s-%s.case" % (self.pid, tag))

    def violation(self, tag, case_text, note, found_input=True):
        path = self.replay_path(tag)
        with open(path, "w") as f:
            f.write("# property %s: %s\n" % (self.pid, note))
            f.write(case_text if case_text.endswith("\n") else case_text + "\n")
        self.violations.append((path, note, found_input))

    def known(self, what):
        self.known_hits[what] = self.known_hits.get(what, 0) + 1


def load_known(pid):
    if not os.path.exists(KNOWN):
        return []
    return [k for k in json.load(open(KNOWN))["findings"] if k["property"] == pid and k["status"] == "open"]


def prepare(ctx):
    """Build everything; returns False (after recording a violation) when the Coq side or the
    harness cannot be built."""
    lock = build.file_lock()
    try:
        ok, msg = build.build_coq(ctx.log)
        ctx.notes.append("coq: " + msg)
        if not ok:
            ctx.violation("coq-build", "the Coq development does not build: " + msg,
                          "theorem files do not compile (%s)" % msg, found_input=False)
            return False
        ok, msg = build.build_harness(ctx.log)
        if not ok:
            ctx.violation("harness-build", "harness does not build against /repo:\n" + msg[-2000:],
                          "correspondence harness does not compile against /repo's working tree", found_input=False)
            return False
    finally:
        lock.close()
    return True


def proof_gate(ctx):
    """Hygiene + the property's theorem file + axioms. Records proof coverage; a failure is a
    violation without failing input (the theorem that no longer checks is named)."""
    bad, nfiles = coqgate.hygiene()
    res = coqgate.check_property_file(ctx.pid)
    ctx.placeholder = any(n.endswith("_placeholder") for n in res.get("names", []))
    ctx.cov["obligations"] = res["n_theorems"]
    ctx.cov["discharged"] = len([1 for _, ax in res["theorems"] if all(a in coqgate.ALLOWED_AXIOMS for a in ax)]) \
        if res["ok"] else 0
    # theorems without Print Assumptions are still Qed-checked by the compile; count them when the file compiles
    if res["ok"]:
        ctx.cov["discharged"] = res["n_theorems"]
    ctx.cov["theorems"] = [{"name": n, "axioms": ax} for n, ax in res["theorems"]]
    ctx.cov["checker_cmd"] = "make -C coq (coq_makefile, full .vo build) ; " + res.get("cmd", "")
    ctx.cov["hygiene_files_scanned"] = nfiles
    if bad:
        ctx.violation("hygiene", "\n".join("%s:%d: %s" % b for b in bad),
                      "forbidden declaration in the Coq development: %s" % (bad[0],), found_input=False)
    if not res["ok"]:
        ctx.violation("theorem", "theorem file coq/theories/Properties/%s.v no longer checks\n%s" % (ctx.pid, res["log"]),
                      "theorem file Properties/%s.v does not check or depends on a non-allowed axiom" % ctx.pid,
                      found_input=False)
    if ctx.tier == "thorough":
        ok, out = coqgate.coqchk(ctx.pid)
        ctx.cov["coqchk"] = "ok" if ok else "FAILED"
        ctx.cov["coqchk_tail"] = out[-600:]
        if not ok:
            ctx.violation("coqchk", out, "coqchk rejects the compiled theorem file", found_input=False)
    return not bad and res["ok"]


def correspond(lines, shards=16):
    """Run the same case lines through the implementation and through the extracted model."""
    impl, died_i = build.run_sharded(build.RQV, lines, shards)
    model, died_m = build.run_sharded(build.DRIVER, lines, shards)
    return impl, model, died_i, died_m


def canon(line):
    """Canonical form of a result line: the model's `err <kind>` and the harness's `panic` agree."""
    t = line.split()
    if len(t) >= 2 and t[1] in ("err", "panic"):
        return t[0] + " panic"
    return " ".join(t)


def finish(ctx, level="proof", rule="", samples=None, evaluations=0, distinct=0, extra=None, assumptions=None):
    os.makedirs(EVID, exist_ok=True)
    cov = dict(ctx.cov)
    if getattr(ctx, "placeholder", False):
        level = "other"
        cov["explanation"] = ("theorems for this property are not in place yet at this commit: the check decides it by the "
                              "correspondence between the executable Coq model and the implementation plus the statement's "
                              "oracle evaluated on the implementation's output (differential testing, not a proof)")
    cov.update(dict(evaluations=evaluations, distinct_nontrivial=distinct, rule=rule,
                    samples=samples or [], trusted_base=TRUSTED_BASE))
    cov["traces_validated_against_impl"] = evaluations
    if extra:
        cov.update(extra)
    cov["known_findings_hit"] = ctx.known_hits
    cov["notes"] = ctx.notes
    unlisted = ctx.violations
    ev = dict(property_id=ctx.pid, tier=ctx.tier, seed=ctx.seed, level=level, coverage=cov,
              assumptions=assumptions or [], wall_s=round(time.time() - ctx.t0, 2), violations=len(unlisted))
    with open(os.path.join(EVID, ctx.pid + ".json"), "w") as f:
        json.dump(ev, f, indent=1)
    for what, n in sorted(ctx.known_hits.items()):
        print("KNOWN-FINDING: property=%s %s (%d cases this run)" % (ctx.pid, what, n))
    if unlisted:
        for path, note, found in unlisted:
            print("note: " + note)
            print("VIOLATION property=%s replay=%s%s" % (ctx.pid, path, "" if found else " no-failing-input-found"))
        return 1
    print("OK property=%s tier=%s evaluations=%d nontrivial=%d theorems=%d/%d wall=%.0fs" % (
        ctx.pid, ctx.tier, evaluations, distinct, cov.get("discharged", 0), cov.get("obligations", 0),
        time.time() - ctx.t0))
    return 0


def corpus(pid, tier="quick"):
    """Minimised failing inputs kept from earlier findings, run first on every check: corpus/<pid>.cases (hand-kept
    witnesses of repaired defects), corpus/<pid>.seeded.cases (one per seeded change, harvested by bin/harvest_corpus),
    and corpus/<pid>.thorough.cases (expensive ones, thorough tier only)."""
    out = []
    names = [pid + ".cases", pid + ".seeded.cases"] + ([pid + ".thorough.cases"] if tier == "thorough" else [])
    for name in names:
        p = os.path.join(ROOT, "corpus", name)
        if os.path.exists(p):
            out += [l.strip() for l in open(p) if l.strip() and not l.startswith("#")]
    # case ids label results: give the corpus cases ids of their own (second token of every case kind)
    for i, l in enumerate(out):
        t = l.split(" ", 2)
        out[i] = "%s %d %s" % (t[0], 9000000 + i, t[2])
    return out


def corpus_pairs(pid):
    """pairs of scenes that must give identical pictures (corpus/<pid>.pairs.cases) -> [(kind, scene_a, scene_b)]"""
    f = os.path.join(ROOT, "corpus", pid + ".pairs.cases")
    out = []
    if os.path.exists(f):
        for l in open(f):
            l = l.strip()
            if l and not l.startswith("#") and l.count(" ||| ") == 2:
                out.append(tuple(l.split(" ||| ")))
    return out
