"""Shared random generators (all randomness comes from the one ctx.rng)."""
import struct

N_MODES = 28
MODE_NAMES = ["Dst", "Src", "Clear", "SrcOver", "DstOver", "SrcIn", "DstIn", "SrcOut", "DstOut", "SrcAtop",
              "DstAtop", "Xor", "Add", "Screen", "Overlay", "Darken", "Lighten", "ColorDodge", "ColorBurn",
              "HardLight", "SoftLight", "Difference", "Exclusion", "Multiply", "Hue", "Saturation", "Color",
              "Luminosity"]


def f32bits(x):
    return struct.unpack("<I", struct.pack("<f", x))[0]


def bits_f32(b):
    return struct.unpack("<f", struct.pack("<I", b & 0xffffffff))[0]


def premul_pixel(rng):
    """A premultiplied ARGB word, biased towards the boundary alphas."""
    c = rng.random()
    if c < 0.2:
        a = 255
    elif c < 0.3:
        a = 0
    elif c < 0.4:
        a = rng.choice([1, 2, 127, 128, 254])
    else:
        a = rng.randrange(256)
    if rng.random() < 0.1:
        # translucent white: every channel equals alpha (the commonest premultiplied colour, and the one where any
        # rounding disagreement between the alpha and the colour channels breaks r,g,b <= a)
        return (a << 24) | (a << 16) | (a << 8) | a
    def ch():
        c = rng.random()
        if c < 0.2:
            return a
        if c < 0.3:
            return 0
        return rng.randrange(a + 1)
    return (a << 24) | (ch() << 16) | (ch() << 8) | ch()


def hexpx(p):
    return "%08x" % p


def alpha_bits(rng):
    c = rng.random()
    if c < 0.15:
        return f32bits(1.0)
    if c < 0.25:
        return f32bits(0.0)
    if c < 0.30:
        return f32bits(rng.choice([0.5, 0.25, 1.0 / 255, 254.5 / 255, 0.998]))
    if c < 0.36:
        # alphas at the ends of the 8-bit scale: bytes 254, 253, 1, 2 exactly, and values below one step that still round to 1
        return f32bits(rng.choice([254.0 / 255, 254.0 / 255, 253.0 / 255, 1.0 / 255, 2.0 / 255, 0.75 / 255, 0.6 / 255, 0.0035, 0.4 / 255]))
    return f32bits(rng.random())
