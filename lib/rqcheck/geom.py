"""f64 geometry helpers for the search oracles (not part of any proof)."""
import math


def quad(p0, p1, p2, t):
    u = 1 - t
    return (u * u * p0[0] + 2 * u * t * p1[0] + t * t * p2[0], u * u * p0[1] + 2 * u * t * p1[1] + t * t * p2[1])


def cubic(p0, p1, p2, p3, t):
    u = 1 - t
    a, b, c, d = u * u * u, 3 * u * u * t, 3 * u * t * t, t * t * t
    return (a * p0[0] + b * p1[0] + c * p2[0] + d * p3[0], a * p0[1] + b * p1[1] + c * p2[1] + d * p3[1])


def seg_dist(p, a, b):
    dx, dy = b[0] - a[0], b[1] - a[1]
    l2 = dx * dx + dy * dy
    if l2 == 0:
        return math.hypot(p[0] - a[0], p[1] - a[1])
    t = max(0.0, min(1.0, ((p[0] - a[0]) * dx + (p[1] - a[1]) * dy) / l2))
    return math.hypot(p[0] - (a[0] + t * dx), p[1] - (a[1] + t * dy))


def polyline_dist(p, pts):
    return min(seg_dist(p, pts[i], pts[i + 1]) for i in range(len(pts) - 1)) if len(pts) > 1 else math.hypot(p[0] - pts[0][0], p[1] - pts[0][1])


def curve_points(kind, ctrl, n=64):
    f = quad if kind == "Q" else cubic
    return [f(*ctrl, i / n) for i in range(n + 1)]


def dist_to_curve(p, cpts):
    return polyline_dist(p, cpts)


def dist_to_curve_exact(p, kind, ctrl, n=64):
    """distance from p to the Bezier curve itself (not to a sampled polyline of it): every local minimum among n+1
    samples is refined by a ternary search on the parameter in its two neighbouring intervals"""
    f = quad if kind == "Q" else cubic
    d2 = lambda t: (lambda q: (q[0] - p[0]) ** 2 + (q[1] - p[1]) ** 2)(f(*ctrl, t))
    ds = [d2(i / n) for i in range(n + 1)]
    best = min(ds)
    for i in range(n + 1):
        if (i > 0 and ds[i - 1] < ds[i]) or (i < n and ds[i + 1] < ds[i]):
            continue
        lo, hi = max(0.0, (i - 1) / n), min(1.0, (i + 1) / n)
        for _ in range(50):
            a, b = lo + (hi - lo) / 3, hi - (hi - lo) / 3
            if d2(a) < d2(b):
                hi = b
            else:
                lo = a
        best = min(best, d2(lo), d2(hi))
    return math.sqrt(best)


def finite(*vs):
    return all(math.isfinite(v) for v in vs)


# ---------------- stroke region (C04 / C09 search oracles) ----------------
def norm(v):
    l = math.hypot(v[0], v[1])
    return (v[0] / l, v[1] / l)


def poly_contains(poly, p):
    """convex polygon (any orientation), boundary counts as inside"""
    sgn = 0
    n = len(poly)
    for i in range(n):
        a, b = poly[i], poly[(i + 1) % n]
        c = (b[0] - a[0]) * (p[1] - a[1]) - (b[1] - a[1]) * (p[0] - a[0])
        if abs(c) < 1e-12:
            continue
        s = 1 if c > 0 else -1
        if sgn == 0:
            sgn = s
        elif s != sgn:
            return False
    return True


def poly_dist(poly, p):
    if poly_contains(poly, p):
        return 0.0
    return min(seg_dist(p, poly[i], poly[(i + 1) % len(poly)]) for i in range(len(poly)))


class Region:
    def __init__(self):
        self.polys, self.discs, self.safe_discs = [], [], []

    def dist(self, p):
        d = 1e30
        for poly in self.polys:
            d = min(d, poly_dist(poly, p))
            if d == 0:
                return 0.0
        for c, r in self.discs:
            d = min(d, max(0.0, math.hypot(p[0] - c[0], p[1] - c[1]) - r))
        return d

    def deep_inside(self, p, m):
        """sound sufficient condition: the disc of radius m about p lies inside ONE convex piece"""
        for poly in self.polys:
            if poly_contains(poly, p):
                n = len(poly)
                ok = True
                for i in range(n):
                    a, b = poly[i], poly[(i + 1) % n]
                    l = math.hypot(b[0] - a[0], b[1] - a[1])
                    if l < 1e-12:
                        continue
                    d = abs((b[0] - a[0]) * (p[1] - a[1]) - (b[1] - a[1]) * (p[0] - a[0])) / l
                    if d < m:
                        ok = False
                        break
                if ok:
                    return True
        # a round join is a sector on the outer side and a round cap a half disc: the full disc is inside the region only
        # when the neighbouring segments are at least hw long (their rectangles then cover the rest of the disc)
        for c, r in self.safe_discs:
            if math.hypot(p[0] - c[0], p[1] - c[1]) + m <= r:
                return True
        return False


def subpaths(ops):
    """ops: tuples ('M',x,y) ('L',x,y) ('Z',) -> list of (points, closed) following the stroker's cursor rules"""
    out, cur, closed_start = [], None, None
    pts = []
    for o in ops:
        if o[0] == "M":
            if len(pts) > 0:
                out.append((pts, False))
            pts = [(o[1], o[2])]
        elif o[0] == "L":
            pts.append((o[1], o[2]))
        elif o[0] == "Z":
            if len(pts) > 0:
                out.append((pts, True))
                pts = [pts[0]]
            else:
                pts = []
    if len(pts) > 0:
        out.append((pts, False))
    return out


def dedupe(pts):
    r = []
    for p in pts:
        if not r or p != r[-1]:
            r.append(p)
    return r


def stroke_region(ops, width, cap, join, miter_limit):
    """the region the property describes, for a flat path"""
    reg = Region()
    hw = width / 2
    for pts, closed in subpaths(ops):
        pts = dedupe(pts)
        if closed and len(pts) > 1 and pts[-1] == pts[0]:
            pts = pts[:-1]
        n = len(pts)
        if n < 2:
            continue
        segs = [(pts[i], pts[i + 1]) for i in range(n - 1)]
        if closed:
            segs.append((pts[-1], pts[0]))
        for a, b in segs:
            d = norm((b[0] - a[0], b[1] - a[1]))
            nx, ny = -d[1] * hw, d[0] * hw
            reg.polys.append([(a[0] + nx, a[1] + ny), (b[0] + nx, b[1] + ny), (b[0] - nx, b[1] - ny), (a[0] - nx, a[1] - ny)])
        # joins
        idx = range(len(segs)) if closed else range(len(segs) - 1)
        for i in idx:
            s1, s2 = segs[i], segs[(i + 1) % len(segs)]
            v = s1[1]
            d1 = norm((s1[1][0] - s1[0][0], s1[1][1] - s1[0][1]))
            d2 = norm((s2[1][0] - s2[0][0], s2[1][1] - s2[0][1]))
            crs = d1[0] * d2[1] - d1[1] * d2[0]
            dot = d1[0] * d2[0] + d1[1] * d2[1]
            if abs(crs) < 1e-9 and dot > 0:
                continue
            # outer side normals
            sgn = -1.0 if crs > 0 else 1.0
            if abs(crs) < 1e-9:
                sgn = 1.0
            n1 = (-d1[1] * hw * sgn, d1[0] * hw * sgn)
            n2 = (-d2[1] * hw * sgn, d2[0] * hw * sgn)
            p1 = (v[0] + n1[0], v[1] + n1[1]); p2 = (v[0] + n2[0], v[1] + n2[1])
            if join == "round":
                reg.discs.append((v, hw))
                if math.hypot(s1[1][0] - s1[0][0], s1[1][1] - s1[0][1]) >= hw and math.hypot(s2[1][0] - s2[0][0], s2[1][1] - s2[0][1]) >= hw:
                    reg.safe_discs.append((v, hw))
            else:
                reg.polys.append([v, p1, p2])
                if join == "miter":
                    # 1/sin(theta/2) <= miter_limit, theta = interior angle between the segments
                    cos_t = -dot
                    sin_half = math.sqrt(max(0.0, (1 - cos_t) / 2))
                    if sin_half > 1e-9 and 1 / sin_half <= miter_limit:
                        # intersection of the two offset lines
                        den = d1[0] * d2[1] - d1[1] * d2[0]
                        if abs(den) > 1e-12:
                            t = ((p2[0] - p1[0]) * d2[1] - (p2[1] - p1[1]) * d2[0]) / den
                            tip = (p1[0] + d1[0] * t, p1[1] + d1[1] * t)
                            reg.polys.append([v, p1, tip, p2])
        if not closed:
            for (e, o) in ((pts[0], pts[1]), (pts[-1], pts[-2])):
                d = norm((e[0] - o[0], e[1] - o[1]))
                if cap == "round":
                    reg.discs.append((e, hw))
                    if math.hypot(e[0] - o[0], e[1] - o[1]) >= hw:
                        reg.safe_discs.append((e, hw))
                elif cap == "square":
                    nx, ny = -d[1] * hw, d[0] * hw
                    f = (e[0] + d[0] * hw, e[1] + d[1] * hw)
                    reg.polys.append([(e[0] + nx, e[1] + ny), (f[0] + nx, f[1] + ny), (f[0] - nx, f[1] - ny), (e[0] - nx, e[1] - ny)])
    return reg
