"""Path engine: generators and runner for the public path utilities
(contains_point, flatten, dash_path, stroke_to_path, rect, transform, arc)."""
import subprocess, math
from . import build, gen, scene
from .gen import f32bits as FB
from .scene import fpt, path_tokens


def run(lines):
    p = subprocess.run([build.RQV, "aug"], input="\n".join(lines) + "\n", stdout=subprocess.PIPE,
                       stderr=subprocess.PIPE, text=True, timeout=3600)
    aug = p.stdout.splitlines()
    if p.returncode != 0 or len(aug) != len(lines):
        raise RuntimeError("harness aug failed: " + p.stderr[-1500:])
    for a in aug:
        if a.startswith("HANG "):
            raise RuntimeError("IMPLDIED " + a[5:] + "\n# the call did not return within the watchdog's time (hang)")
    impl, di = build.run_sharded(build.RQV, aug)
    model_lines = [l for l in aug if not l.startswith("parc")]
    model, dm = build.run_sharded(build.DRIVER, model_lines)
    if dm or len(model) != len(model_lines):
        raise RuntimeError("model driver failed: %s" % (dm,))
    if di or len(impl) != len(aug):
        raise RuntimeError("IMPLDIED " + aug[min(len(impl), len(aug) - 1)])
    # re-align model outputs with all lines (parc lines have no model output)
    it = iter(model)
    model_all = [None if l.startswith("parc") else next(it) for l in aug]
    return aug, impl, model_all


def canon(line):
    t = line.split()
    if len(t) >= 2 and t[1] in ("err", "panic"):
        return t[0] + " panic"
    return " ".join(t)


# ---------------- generators ----------------
def gridpt(rng, lo=-8, hi=40):
    return (rng.randrange(lo, hi + 1) / 4.0, rng.randrange(lo, hi + 1) / 4.0)


def polyline_ops(rng, nsub=None, closed=None, pt=gridpt, degenerate=0.1):
    ops = []
    for _ in range(nsub or rng.choice([1, 1, 2, 3])):
        n = rng.randrange(2, 7)
        pts = [pt(rng) for _ in range(n)]
        if rng.random() < degenerate:
            j = rng.randrange(1, n)
            pts[j] = pts[j - 1]              # zero-length segment
        if rng.random() < 0.15:
            # exact 180 degree turn or collinear continuation
            a, b = pts[0], pts[1]
            k = rng.choice([-1, 2, 0.5])
            pts.insert(2, (a[0] + (b[0] - a[0]) * k, a[1] + (b[1] - a[1]) * k))
        ops.append(("M " if rng.random() < 0.95 else "L ") + fpt(*pts[0]))
        for p in pts[1:]:
            ops.append("L " + fpt(*p))
        c = rng.random() < 0.5 if closed is None else closed
        if c:
            if rng.random() < 0.3:
                ops.append("L " + fpt(*pts[0]))   # returns to the start before closing
            ops.append("Z")
            if rng.random() < 0.12:
                ops.append("L " + fpt(*pt(rng)))  # continues after Close without MoveTo
    return ops


def mixed_ops(rng, pt=gridpt):
    """any op order: curves first, after Close, after MoveTo, repeated Close..."""
    ops = []
    n = rng.randrange(1, 8)
    last = None         # the point the next op starts from (None: none yet / unknown after Close)
    for i in range(n):
        c = rng.random()
        if c < 0.2:
            last = pt(rng)
            ops.append("M " + fpt(*last))
        elif c < 0.45:
            last = pt(rng)
            ops.append("L " + fpt(*last))
        elif c < 0.65:
            a, b = pt(rng), pt(rng)
            if rng.random() < 0.1 and ops:
                b = a
            elif rng.random() < 0.06 and last is not None:
                b = last                     # a loop: the curve ends where it starts
            ops.append("Q %s %s" % (fpt(*a), fpt(*b)))
            last = b
        elif c < 0.85:
            a, b, e = pt(rng), pt(rng), pt(rng)
            d = rng.random()
            if d < 0.06:
                b = a                        # coincident control points
            elif d < 0.10 and last is not None:
                e = last                     # a loop: the curve ends where it starts
            elif d < 0.13 and last is not None:
                a = last                     # first control point on the start point
            elif d < 0.16:
                b = e                        # second control point on the end point
            ops.append("C %s %s %s K 0" % (fpt(*a), fpt(*b), fpt(*e)))
            last = e
        else:
            ops.append("Z")
            last = None
    return ops


def style_tokens(rng, dashes=False):
    w = rng.choice([1.0, 2.0, 0.5, 3.0, 1.5, 0.25, 8.0, rng.random() * 4 + 0.1])
    c = rng.random()
    if c < 0.04:
        w = rng.choice([0.0, -1.0, float("nan")])
    cap = rng.choice(["butt", "round", "square"])
    join = rng.choice(["miter", "round", "bevel"])
    ml = rng.choice([10.0, 1.0, 2.0, 4.0, 0.0, 1.4142135, 1.5])
    return "STYLE %d %s %s %d 0 %d" % (FB(w), cap, join, FB(ml), FB(0.0))


def dash_tokens(rng):
    n = rng.randrange(1, 7)
    c = rng.random()
    if c < 0.75:
        arr = [rng.choice([1.0, 2.0, 0.5, 3.0, 1.5, 4.0, 10.0, 0.25, 37.0]) for _ in range(n)]
    elif c < 0.85:
        arr = [rng.choice([0.0, 1.0, 2.0]) for _ in range(n)]
    elif c < 0.9:
        arr = [0.0] * n
    elif c < 0.94:
        arr = [rng.choice([-1.0, 2.0, float("nan"), float("inf"), 3e38]) for _ in range(n)]
    else:
        arr = [rng.random() * 5 for _ in range(n)]
    c = rng.random()
    if c < 0.4:
        off = 0.0
    elif c < 0.8:
        off = rng.choice([0.5, 1.0, -1.0, 7.0, -3.5, 2.25, 100.0, -1000.25])
    elif c < 0.9:
        off = rng.choice([1e9, -1e9, float("inf"), float("nan"), 3e38])
    else:
        off = rng.random() * 20 - 10
    return "%d %s %d" % (len(arr), " ".join(str(FB(a)) for a in arr), FB(off))
