"""C01 - polygon fill coverage equals the exact 4x4 supersampling model."""
from fractions import Fraction as Fr
from .. import scene, scenecheck as sc, gen
from ..gen import f32bits as FB, bits_f32
from . import _scene

RULE = ("polygons with 1..3 subpaths of 3..6 quarter-grid vertices (axis-aligned boxes, slivers, self-intersecting stars, "
        "coincident and reversed edges, explicit / implicit close, wholly or partly above / left / right / below the surface), "
        "filled white SrcOver on a transparent surface of size 0..24, both winding rules, both antialias modes; the crate's "
        "alpha plane is compared with the model's exactly, and with the statement evaluated in exact rational arithmetic: "
        "k = number of covered quarter cells of the pixel on its 4 sample rows, covered = inside(rule, sum of windings of the "
        "edges whose exact crossing rounded to the nearest quarter is <= cell); alpha must be min(255,16k) or 16k-1 (cells "
        "whose crossing is within the slope truncation error of a rounding boundary are left undetermined); antialias off: "
        "painted iff covered per the first sample row's spans; non-trivial = some pixel with partial coverage or a vertex "
        "outside the surface")


q_ = lambda v: v / 4.0


def make_scene(rng, cid, thorough_dims=False):
    W = rng.choice([0, 1, 2, 3, 4, 5, 6, 8, 12, 16, 24] if not thorough_dims else list(range(0, 25)))
    H = rng.choice([0, 1, 2, 3, 4, 5, 6, 8, 12, 16, 24] if not thorough_dims else list(range(0, 25)))
    ops = scene.grid_polygon(rng, max(W, 1), max(H, 1))
    ops = [o for o in ops]
    if cid % 64 == 31:
        # winding numbers in the hundreds: one small polygon repeated 100..300 times in the same direction (the count is
        # part of the exact polygon; NonZero keeps it filled, EvenOdd looks at its parity)
        base = []
        n0 = rng.randrange(3, 6)
        pts = [(q_(rng.randrange(0, max(W, 1) * 4 + 1)), q_(rng.randrange(0, max(H, 1) * 4 + 1))) for _ in range(n0)]
        one = ["M " + scene.fpt(*pts[0])] + ["L " + scene.fpt(*p_) for p_ in pts[1:]] + ["Z"]
        ops = one * rng.choice([100, 127, 128, 129, 200, 255, 256, 257, 300])
    if cid % 16 == 15:
        # the same polygons with some vertices thousands of pixels away from the surface in any direction (still far
        # inside the 16.16 working range of a straight edge: |x| < 16384 px, |y| < 2^29 quarter rows)
        far = lambda r, big: r.choice([-1, 1]) * r.choice([300, 2000, 5000, 8191, 8192, 8200, 9000, big]) + r.randrange(-8, 9) / 4.0
        out = []
        for o in ops:
            t = o.split()
            if t[0] in ("M", "L") and rng.random() < 0.4:
                x, y = bits_f32(int(t[1])), bits_f32(int(t[2]))
                c = rng.random()
                if c < 0.5:
                    y = far(rng, 30000)
                elif c < 0.8:
                    x = far(rng, 12000)
                else:
                    x, y = far(rng, 12000), far(rng, 30000)
                o = "%s %s" % (t[0], scene.fpt(x, y))
            out.append(o)
        ops = out
    rule = rng.randrange(2)
    aa = 1 if rng.random() < 0.75 else 0
    return "scene %d %d %d I %s ; fill %s solid ffffffff 3 %d %d" % (cid, W, H, " ".join(["00000000"] * (W * H)),
                                                                      scene.path_tokens(ops, rule), FB(1.0), aa)


def edges_of(ops):
    """path ops (tuples) -> closed edges in dot2 integers, fill-side cursor semantics"""
    es, cur, first = [], None, None
    def close():
        nonlocal cur
        if first is not None and cur is not None:
            es.append((cur, first))
        cur = first
    for o in ops:
        if o[0] == "M":
            close(); cur = first = (int(o[1] * 4), int(o[2] * 4))
        elif o[0] == "L":
            p = (int(o[1] * 4), int(o[2] * 4))
            if cur is None:
                cur = first = p
            es.append((cur, p)); cur = p
        elif o[0] == "Z":
            close()
    close()
    return es


def expected(W, H, rule, aa, ops):
    """per pixel: set of allowed alphas, or None when undetermined"""
    es = []
    for (a, b) in edges_of(ops):
        (x1, y1), (x2, y2) = a, b
        w = 1
        if y2 < y1:
            x1, y1, x2, y2 = x2, y2, x1, y1; w = -1
        if y1 == y2:
            continue
        es.append((x1, y1, x2, y2, w))
    out = []
    for py in range(H):
        rowk = [[0, 0] for _ in range(W)]     # kmin, kmax
        rows = range(4 * py, 4 * py + 4) if aa else [4 * py]
        first_row_cov = None
        for y in rows:
            act = []
            for (x1, y1, x2, y2, w) in es:
                if y1 <= y < y2:
                    X = Fr(x1) + Fr((y - y1) * (x2 - x1), (y2 - y1))
                    q = (X + Fr(1, 2)).__floor__()
                    # the crate steps the edge from its top (also above the surface) with a slope truncated TOWARDS ZERO to
                    # 16.16: its crossing lags behind the exact one, by less than one 16.16 unit per row stepped
                    err = Fr(y - y1 + 2, 16384)
                    lo, hi = ((X - err, X) if x2 > x1 else ((X, X + err) if x2 < x1 else (X, X)))
                    qlo, qhi = (lo - Fr(1, 10 ** 6) + Fr(1, 2)).__floor__(), (hi + Fr(1, 10 ** 6) + Fr(1, 2)).__floor__()
                    act.append((q, w, (qlo - 1, qhi + 1) if qlo != qhi else None))
            for c in range(4 * W):
                wsum = sum(w for q, w, u in act if q <= c)
                ins = (wsum != 0) if rule == 0 else (wsum % 2 != 0)
                # undetermined when a crossing may round to either side of the cell
                u = any(un is not None and un[0] <= c <= un[1] for q, w, un in act)
                px = c // 4
                if u:
                    rowk[px][1] += 1
                elif ins:
                    rowk[px][0] += 1; rowk[px][1] += 1
        if not aa:
            # antialias off: spans of the first sample row; [xs, xe) paints pixels floor(xs/4) <= px < floor(xe/4)
            y = 4 * py
            act = []
            unc_row = False
            for (x1, y1, x2, y2, w) in es:
                if y1 <= y < y2:
                    X = Fr(x1) + Fr((y - y1) * (x2 - x1), (y2 - y1))
                    q = (X + Fr(1, 2)).__floor__()
                    err = Fr(y - y1 + 2, 16384)
                    lo, hi = ((X - err, X) if x2 > x1 else ((X, X + err) if x2 < x1 else (X, X)))
                    if (lo - Fr(1, 10 ** 6) + Fr(1, 2)).__floor__() != (hi + Fr(1, 10 ** 6) + Fr(1, 2)).__floor__():
                        unc_row = True
                    act.append((q, w))
            if unc_row:
                out.extend([None] * W)
                continue
            cov = []
            for c in range(4 * W):
                wsum = sum(w for q, w in act if q <= c)
                cov.append((wsum != 0) if rule == 0 else (wsum % 2 != 0))
            painted = [False] * W
            c = 0
            while c < 4 * W:
                if cov[c]:
                    xs = c
                    while c < 4 * W and cov[c]:
                        c += 1
                    xe = c
                    # a span that starts left of the surface starts at cell 0; one that runs past the right edge ends at 4W
                    for px in range(xs // 4, xe // 4):
                        painted[px] = True
                else:
                    c += 1
            out.extend([{255} if pt else {0} for pt in painted])
            continue
        for px in range(W):
            kmin, kmax = rowk[px]
            allowed = set()
            for k in range(kmin, kmax + 1):
                allowed.add(min(255, 16 * k))
                if k > 0:
                    allowed.add(16 * k - 1)
            out.append(allowed)
    return out


def post(ctx, sr):
    bad = None
    checked = 0
    for i in range(len(sr.cases)):
        hdr, ops = scene.split_ops(sr.aug[i])
        t = hdr.split()
        W, H = int(t[2]), int(t[3])
        if not sr.impl[i] or sr.impl[i][0].panic:
            continue
        ot = ops[0].split()
        from . import _path
        rule, pops, nxt = _path.parse_path(ot, 1)
        aa = int(ot[-1])
        exp = expected(W, H, rule, aa, pops)
        px = sr.impl[i][0].parse()["surface"]
        for j, (p, e) in enumerate(zip(px, exp)):
            if e is None:
                continue
            checked += 1
            a = int(p, 16) >> 24
            if a not in e or int(p, 16) != a * 0x01010101:
                if bad is None or len(sr.aug[i]) < len(sr.aug[bad[0]]):
                    bad = (i, j, a, sorted(e))
                break
    ctx.cov["pixels_checked_against_rational_statement"] = checked
    if bad:
        i, j, a, e = bad
        W = int(sr.aug[i].split()[2])
        ctx.violation("cov-%s" % sr.cases[i].split()[1], sr.aug[i],
                      "pixel (%d,%d) has alpha %d but the 4x4 supersampling statement allows only %s" % (j % max(W, 1), j // max(W, 1), a, e))


def concrete(sr, i, k, c, op):
    if c.get("panic") and k < len(sr.impl[i]) and sr.impl[i][k].panic and k < len(sr.model[i]) and not sr.model[i][k].panic:
        return "fill panicked on a polygon of the domain (no pixel gets its coverage)"
    return None


def nontrivial(sr, i):
    if not sr.impl[i] or sr.impl[i][0].panic:
        return False
    px = sr.impl[i][0].parse()["surface"]
    return any(0 < (int(p, 16) >> 24) < 255 for p in px)


ASSUME = ["vertices on the quarter-pixel grid within the working range (|x| <= 12000 px, |y| <= 30000 px exercised); the oracle's crossing-error allowance is (y - y1 + 2) * 2^-14 "
          "quarter pixels on the side the truncation of the slope towards zero moves it to"]


def run(ctx):
    n = 2500 if ctx.tier == "quick" else 40000
    extra = lambda ctx_, base: [make_scene(ctx.rng, base + j, ctx.tier == "thorough") for j in range(n)]
    return _scene.run_property(ctx, dict(), 0, 0, RULE, concrete, ASSUME, post=post, nontrivial=nontrivial, extra_lines=extra)


def replay(ctx, path):
    return _scene.replay(ctx, path, concrete, post)
