"""C02 - drawing never changes pixels outside shape, clip and surface."""
from .. import scenecheck as sc, gen
from . import _scene

ERASING = [1, 2, 5, 6, 7, 10]   # Src Clear SrcIn DstIn SrcOut DstAtop
CFG = dict(nops=7, maxdim=10, modes=ERASING * 3 + list(range(gen.N_MODES)), init="random",
           sources=["solid", "solid", "image", "linear", "radialc"], p_clip=0.2, p_layer=0.12)
RULE = ("random scenes (surface <= 10x10 with random premultiplied non-zero content, 1..7 ops: fill, fill_rect, stroke, clear, "
        "mask, draw_image_*, push/pop clip rect and clip path, push/pop layer, transforms), blend modes biased to the erasing "
        "ones (Src, Clear, SrcIn, DstIn, SrcOut, DstAtop); after every drawing op the implementation's destination is "
        "compared pixel by pixel with its previous content on the complement of the model's may-change region (coverage and "
        "all clips non-zero), and every non-destination buffer must be unchanged; non-trivial = some drawing op both changed "
        "and preserved pixels")


def post(ctx, sr):
    worst = None
    for i in range(len(sr.cases)):
        bad = sc.frame_violations(sr, i)
        if bad:
            k, what = bad[0]
            if worst is None or len(sr.aug[i]) < len(sr.aug[worst[0]]):
                worst = (i, k, what)
    if worst:
        i, k, what = worst
        ctx.violation("frame-%s" % sr.cases[i].split()[1], sc.truncate_case(sr.aug[i], k),
                      "a drawing call changed pixels it must not touch: %s (op %d)" % (what, k))


def concrete(sr, i, k, c, op):
    if c.get("frame", 0) > 0:
        return "pixels outside the shape/clip region changed"
    return None


ASSUME = ["shape coverage is the model's (C01) coverage; clip coverage the model's (C05) fold",
          "non-separable blend modes that panic in the dependency (see C07/C18 known findings) are compared as 'both panic'"]


def run(ctx):
    return _scene.run_property(ctx, CFG, 3000, 20000, RULE, concrete, ASSUME, post=post)


def replay(ctx, path):
    return _scene.replay(ctx, path, concrete, post)
