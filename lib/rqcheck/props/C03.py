"""C03 - each pixel is composited by the blend mode's formula weighted by coverage."""
from .. import gen
from . import _scene

CFG = dict(nops=6, maxdim=9, init="random", p_clip=0.22, p_layer=0.15, p_structured=0.6,
           sources=["solid", "solid", "solid", "image", "linear"],
           draw_kinds=["fill", "fill", "fillrect", "fillrect", "mask", "mask", "clear", "stroke", "drawimage"])
RULE = ("random scenes with partial coverage (sloped grid polygons, masks with random bytes), partial clip paths, all 28 "
        "blend modes, alpha in [0,1], on the surface and inside layers at non-zero origins; every pixel after every op is "
        "compared with the model (= the formula). A differing pixel inside the may-change region that no coverage value "
        "1..255 explains (for mask/clear/pop_layer: that differs at all, their coverage being given) is a failing input")


def concrete(sr, i, k, c, op):
    if c.get("formula", 0) > 0:
        return "a pixel's new value is not the blend formula of its own inputs for any coverage"
    if op.split()[0] == "clear" and k < len(sr.impl[i]) and k < len(sr.model[i]) and not sr.model[i][k].panic:
        if sr.impl[i][k].panic:
            return "clear() panicked instead of giving the pixels inside the clip the requested colour"
        a, b = sr.impl[i][k].parse(), sr.model[i][k].parse()
        if a["surface"] != b["surface"] or (a["layer"] or [None, None])[1] != (b["layer"] or [None, None])[1]:
            return "clear() did not give exactly the requested colour to exactly the pixels inside the clip (coverage and source are given)"
    if c.get("frame", 0) > 0:
        # coverage (or clip coverage) zero: the formula leaves the pixel as it was
        return "a pixel with zero coverage changed: its new value is not the formula of its own inputs"
    return None


ASSUME = ["premultiplied sources and destinations", "for fill/stroke/fill_rect the shape coverage is existentially quantified in the "
          "failing-input search (coverage itself is C01's subject)"]


def run(ctx):
    return _scene.run_property(ctx, CFG, 3000, 20000, RULE, concrete, ASSUME)


def replay(ctx, path):
    return _scene.replay(ctx, path, concrete)
