"""C04 - strokes cover exactly the offset region implied by width, joins and caps."""
import math
from .. import core, pathcheck as pc, scene, scenecheck as sc, geom, build
from ..gen import f32bits as FB, bits_f32
from . import _path

RULE = ("polylines with open and closed subpaths (turning angles 0..180 incl. exact reversals and collinear continuations, "
        "zero-length segments, subpaths returning to their start before Close, ops after Close), three caps, three joins, "
        "miter limits around the switch point, widths incl. 0, negative and NaN: stroke_to_path's op list is compared bit for "
        "bit with the f32 model; and DrawTarget::stroke (white on transparent, identity / translated / uniformly scaled "
        "transforms, also magnifying by up to 65536 and reducing by up to 4096 with the geometry scaled inversely; paths lying wholly outside the surface whose caps or miter tips reach in) is compared with the region of the statement computed in f64: pixels inside it by more than the margin "
        "must be 255, pixels outside it by more than the margin 0; curved paths stroked under the identity and under scales up to 1000 are judged against the exact curve (within w/2 -+ 1 px) (a few 400x400 scenes stroke 120..200 px wide lines that turn by 0.5..8 degrees, where the join wedge is pixels wide); non-trivial = stroke with >= 2 segments")


def manhattan(rng):
    """the domain of the exact theorems (StrokeExact.v): integer vertices, horizontal / vertical segments (some of length
    zero, some reversals), even integer width, butt / square caps, bevel / miter joins"""
    x, y = rng.randrange(-40, 120), rng.randrange(-40, 120)
    ops = ["M " + scene.fpt(float(x), float(y))]
    x0, y0 = x, y
    for _k in range(rng.randrange(1, 7)):
        d = rng.choice([-1, 1]) * rng.choice([0, 1, 2, 5, 9, 30])
        if rng.random() < 0.5:
            x += d
        else:
            y += d
        ops.append("L " + scene.fpt(float(x), float(y)))
    if rng.random() < 0.4:
        if x != x0 and y != y0:
            ops.append("L " + scene.fpt(float(x0), float(y)))
        ops.append("Z")
    style = "STYLE %d %s %s %d 0 %d" % (FB(float(2 * rng.choice([1, 1, 2, 3, 8]))), rng.choice(["butt", "square"]), rng.choice(["bevel", "miter"]),
                                        FB(rng.choice([10.0, 1.0, 2.0, 1.4142135, 0.0, 4.0])), FB(0.0))
    return style, ops


def make_lines(rng, n):
    # the winding rule of the stroked path is irrelevant to its outline (which is always filled NonZero): both rules
    lines = []
    for i in range(n):
        if i % 20 == 7:
            style, ops = manhattan(rng)
            lines.append("pstroke %d %s %s" % (i, style, scene.path_tokens(ops, i % 2)))
        else:
            lines.append("pstroke %d %s %s" % (i, pc.style_tokens(rng), scene.path_tokens(pc.polyline_ops(rng), i % 2)))
    return lines


def oracle(aug, impl):
    t = aug.split()
    w = bits_f32(int(t[3]))
    it = impl.split()
    if it[1] != "ok":
        return "stroke_to_path panicked"
    if not (w > 0) and not it[2:] == ["P", "0", "0"]:
        if w != w:
            return "skip"
        return "a non-positive width must give an empty outline"
    return None


def pixel_check(ctx):
    rng = ctx.rng
    n = 150 if ctx.tier == "quick" else 2500
    W = H = 24
    scenes, meta = [], []
    for i in range(n):
        def P(r):
            return (r.randrange(8, 4 * W - 8) / 4.0, r.randrange(8, 4 * H - 8) / 4.0)
        ops = pc.polyline_ops(rng, nsub=rng.choice([1, 1, 2]), pt=P, degenerate=0.05)
        width = rng.choice([1.0, 2.0, 3.0, 4.5, 6.0])
        cap = rng.choice(["butt", "round", "square"]); join = rng.choice(["miter", "round", "bevel"])
        ml = rng.choice([10.0, 1.0, 2.0, 4.0, 1.5])
        s = rng.choice([1.0, 1.0, 0.5, 2.0])
        tx, ty = rng.choice([(0.0, 0.0), (0.25, -0.5), (2.0, 1.0)])
        fam = i % 6
        if fam == 5:
            # two open subpaths whose strokes overlap: a line ending on the body of another (T junction), two lines ending
            # at the same corner, a line crossing another; caps of every kind - every contour of the outline must add to
            # the NonZero fill, none may cancel another
            a = P(rng); b = P(rng)
            k = rng.choice([0.5, 0.25, 0.75, 1.0, 0.0])
            j = (a[0] + (b[0] - a[0]) * k, a[1] + (b[1] - a[1]) * k)          # a point on the first line (or one of its ends)
            c = P(rng)
            qz = lambda v: round(v * 4) / 4.0
            j = (qz(j[0]), qz(j[1]))
            second = [c, j] if rng.random() < 0.5 else [j, c]
            if rng.random() < 0.25:     # crossing instead of ending there
                second = [c, (qz(2 * j[0] - c[0]), qz(2 * j[1] - c[1]))]
            ops = ["M " + scene.fpt(*a), "L " + scene.fpt(*b), "M " + scene.fpt(*second[0]), "L " + scene.fpt(*second[1])]
            width = rng.choice([3.0, 4.0, 6.0]); cap = rng.choice(["square", "square", "round", "butt"])
        elif fam == 3:
            # every vertex outside the surface, farther than half the width from it, while a miter tip or a square / round
            # cap reaches in: a sharp chevron (or a single capped line) pointing at the surface from a random side
            width = rng.choice([4.0, 6.0, 8.0, 10.0]); join = rng.choice(["miter", "miter", "round", "bevel"]); ml = rng.choice([10.0, 10.0, 4.0, 20.0])
            cap = rng.choice(["square", "round", "butt"])
            side = rng.randrange(4)                                 # the vertex lies beyond this side of the surface
            d = width / 2 + rng.choice([0.3, 0.6, 1.0, 2.0])        # ... by more than half the width
            along = rng.randrange(3, W - 2) + rng.choice([0.0, 0.5])
            vx, vy, ux, uy = [(-d, along, 1.0, 0.0), (W + d, along, -1.0, 0.0), (along, -d, 0.0, 1.0), (along, H + d, 0.0, -1.0)][side]
            tilt = rng.choice([0.0, 0.0, 0.1, -0.15])
            ux, uy = ux * math.cos(tilt) - uy * math.sin(tilt), ux * math.sin(tilt) + uy * math.cos(tilt)
            L, h = 20.0, rng.choice([2.0, 3.0, 5.0, 8.0])
            if rng.random() < 0.7:
                ax, ay = vx - ux * L - uy * h, vy - uy * L + ux * h
                bx, by = vx - ux * L + uy * h, vy - uy * L - ux * h
                pts = [(ax, ay), (vx, vy), (bx, by)]
            else:
                pts = [(vx - ux * L, vy - uy * L), (vx, vy)]
            qz = lambda v: round(v * 4) / 4.0
            ops = ["M " + scene.fpt(qz(pts[0][0]), qz(pts[0][1]))] + ["L " + scene.fpt(qz(a), qz(b)) for a, b in pts[1:]]
            s, tx, ty = 1.0, 0.0, 0.0
        elif fam == 4:
            # the same kind of geometry drawn tiny in user space under a strongly magnifying transform (or huge under a
            # reducing one): widths, segment lengths and the region scale with it
            s = rng.choice([1024.0, 16384.0, 20000.0, 65536.0, 1.0 / 64, 1.0 / 2048, 1.0 / 4096])
            ops = [" ".join([o.split()[0]] + [str(FB(bits_f32(int(v)) / s)) for v in o.split()[1:]]) for o in ops]
            width = width / s
            tx, ty = 0.0, 0.0
        # one stroke in five under an orientation-reversing transform (y-up coordinates, mirrored x): the region is mirrored
        # with it.  The mirror is folded into the geometry handed to the region oracle, so the oracle still sees a
        # plain scale: device = s * (fx * x, fy * y) + (tx', ty')
        fx, fy = (rng.choice([(1, -1), (-1, 1)]) if (i % 5 == 2 and fam not in (3,)) else (1, 1))
        if (fx, fy) != (1, 1):
            tx, ty = (float(W) - tx if fx < 0 else tx), (float(H) - ty if fy < 0 else ty)
        xf = (fx * s, 0.0, 0.0, fy * s, tx, ty)
        style = "STYLE %d %s %s %d 0 %d" % (FB(width), cap, join, FB(ml), FB(0.0))
        scenes.append("scene %d %d %d I %s ; xf %s ; stroke %s %s SRC solid ffffffff 3 %d 1" % (
            i, W, H, " ".join(["00000000"] * (W * H)), scene.xf_tokens(xf), scene.path_tokens(ops, i % 2), style, FB(1.0)))
        if (fx, fy) != (1, 1):
            ops = [o if o == "Z" else "%s %d %d" % (o.split()[0], FB(fx * bits_f32(int(o.split()[1]))), FB(fy * bits_f32(int(o.split()[2])))) for o in ops]
        meta.append((ops, width, cap, join, ml, s, tx, ty))
    # wide strokes with small turning angles: the join wedge is pixels wide far away from the vertex
    angs = [2.4, 2.2, 1.8, 2.5, 5.0, 1.2, 3.0, 8.0, 0.5]
    for j in range(9 if ctx.tier == "quick" else 63):
        Wb = 400
        ang = math.radians(angs[j % len(angs)] * (1 if (j // len(angs)) % 2 == 0 else -1) * rng.choice([1, 1, -1]))
        ops = ["M " + scene.fpt(60.0, 200.0), "L " + scene.fpt(200.0, 200.0),
               "L " + scene.fpt(200.0 + 140.0 * math.cos(ang), 200.0 + 140.0 * math.sin(ang))]
        width = rng.choice([200.0, 200.0, 160.0]); cap = ["butt", "round", "square"][(j // 3) % 3]; join = ["bevel", "round", "miter"][j % 3]; ml = 10.0
        # every other one drawn a thousand times smaller in user space under a magnifying transform: round caps and joins a
        # hundred device pixels in radius whose user-space radius is a fraction of a unit
        sw_ = 1024.0 if j % 2 else 1.0
        if sw_ != 1.0:
            ops = [o if o == "Z" else "%s %d %d" % (o.split()[0], FB(bits_f32(int(o.split()[1])) / sw_), FB(bits_f32(int(o.split()[2])) / sw_)) for o in ops]
            width = width / sw_
        style = "STYLE %d %s %s %d 0 %d" % (FB(width), cap, join, FB(ml), FB(0.0))
        scenes.append("scene %d %d %d I %s ; xf %s ; stroke %s %s SRC solid ffffffff 3 %d 1" % (
            n + j, Wb, Wb, " ".join(["00000000"] * (Wb * Wb)), scene.xf_tokens((sw_, 0.0, 0.0, sw_, 0.0, 0.0)), scene.path_tokens(ops, 0), style, FB(1.0)))
        meta.append((ops, width, cap, join, ml, sw_, 0.0, 0.0))
    # scenes kept from earlier failures (corpus): re-judged first
    import os
    ncorp = 0
    cpath = os.path.join(build.ROOT, "corpus", "C04.scenes.seeded.cases")
    for cl in ([l.strip() for l in open(cpath) if l.startswith("scene")] if os.path.exists(cpath) else []):
        try:
            hdr, cops = scene.split_ops(cl)
            xf = [bits_f32(int(v)) for v in cops[0].split()[1:7]]
            t = cops[1].split()
            if t[0] != "stroke" or xf[1] != 0 or xf[2] != 0 or xf[0] != xf[3] or hdr.split()[2] != hdr.split()[3]:
                continue
            w_, pops, j = _path.parse_path(t, 1)
            assert t[j] == "STYLE"
            if int(t[j + 5]) != 0 or any(o[0] not in "MLZ" for o in pops):
                continue
            raw = []
            for o in pops:
                raw.append(o[0] if o[0] == "Z" else "%s %d %d" % (o[0], FB(o[1]), FB(o[2])))
            ncorp += 1
            scenes.insert(0, cl.split(" STROKED")[0]); meta.insert(0, (raw, bits_f32(int(t[j + 1])), t[j + 2], t[j + 3], bits_f32(int(t[j + 4])), xf[0], xf[4], xf[5]))
        except Exception:
            continue
    impl, died = build.run_sharded(build.RQV, scenes)
    checked = 0
    for idx, (line, sc_line, m) in enumerate(zip(impl, scenes, meta)):
        W = H = int(sc_line.split()[2])
        stride = 1 if idx < ncorp else (3 if W <= 24 else 7)
        parts = scene.split_results(line)[1]
        if len(parts) < 2 or parts[1] in ("panic", "hang"):
            continue
        px = sc.OpRes(parts[1]).parse()["surface"]
        ops, width, cap, join, ml, s, tx, ty = m
        tops = []
        for o in ops:
            t = o.split()
            tops.append((t[0],) + tuple(bits_f32(int(v)) for v in t[1:]))
        reg = geom.stroke_region(tops, width, cap, join, ml)
        margin = 0.5 / s + 0.75 / s      # half a pixel (straight segments) + pixel half-diagonal, in user units
        for y in range(H):
            for x in range(W):
                if W > 24 and idx >= ncorp:
                    # wide-stroke scenes: every pixel of the band around the joined vertex, one in sixteen elsewhere
                    # (round caps and joins of this size show errors of a few percent of the radius as whole pixels)
                    if (abs(x - 200) > 12 or abs(y - 200) < 20) and ((x % 4) or (y % 4)):
                        continue
                elif (x * 7 + y * 13 + checked) % stride:
                    continue
                u = ((x + 0.5 - tx) / s, (y + 0.5 - ty) / s)
                a = int(px[y * W + x], 16) >> 24
                d = reg.dist(u)
                if d > margin and a != 0:
                    ctx.violation("px-%s" % sc_line.split()[1], sc_line,
                                  "pixel (%d,%d) is %.2f user units outside the stroke region but has alpha %d" % (x, y, d, a))
                    return
                if d == 0 and a != 255 and reg.deep_inside(u, margin):
                    ctx.violation("px-%s" % sc_line.split()[1], sc_line,
                                  "pixel (%d,%d) is inside the stroke region by more than the margin but has alpha %d" % (x, y, a))
                    return
                checked += 1
    ctx.cov["pixels_checked_against_region"] = checked


def curved_check(ctx):
    """Curved paths stroked under the identity and under strongly magnifying transforms, alone or combined with quarter
    turns and general rotations (the geometry mapped back through the inverse):
    a pixel farther than w/2 + 1 px (+ half diagonal) from the exact curve must be untouched, a pixel closer than
    w/2 - 1 px (- half diagonal) to it - and not beyond an open end - fully painted.  Round / bevel joins and butt /
    round caps only, so that the region is within w/2 of the path."""
    rng = ctx.rng
    n = 40 if ctx.tier == "quick" else 300
    W = H = 40
    zero = " ".join(["00000000"] * (W * H))
    scenes, meta = [], []
    for i in range(n):
        s = [1.0, 50.0, 200.0, 1000.0, 1.0 / 16][i % 5]
        def P():
            return (rng.randrange(16, 4 * W - 16) / 4.0, rng.randrange(16, 4 * H - 16) / 4.0)
        cur = P()
        dev = [("M",) + cur]
        for _ in range(rng.randrange(1, 3)):
            if rng.random() < 0.5:
                c, e = P(), P(); dev.append(("Q",) + c + e)
            else:
                c1, c2, e = P(), P(), P(); dev.append(("C",) + c1 + c2 + e)
        closed = rng.random() < 0.3
        width = rng.choice([4.0, 6.0, 8.0])
        cap, join = rng.choice(["butt", "round"]), rng.choice(["round", "bevel"])
        # the linear part: the scale alone, or combined with a quarter turn / a general rotation (about the surface centre)
        th = rng.choice([0.0, 0.0, math.pi / 2, -math.pi / 2, math.pi, 1.0, 1.5, -2.3])
        co, si = (round(math.cos(th)), round(math.sin(th))) if abs(th * 2 / math.pi - round(th * 2 / math.pi)) < 1e-9 else (math.cos(th), math.sin(th))
        m = (s * co, s * si, -s * si, s * co, 0.0, 0.0)
        cx, cy = W / 2.0, H / 2.0
        m = m[:4] + (cx - (cx * m[0] / s + cy * m[2] / s), cy - (cx * m[1] / s + cy * m[3] / s))   # keeps the centre in place (device units)
        m = tuple(bits_f32(FB(v)) for v in m)
        det = m[0] * m[3] - m[1] * m[2]
        def inv(p):
            x, y = p[0] - m[4], p[1] - m[5]
            return ((x * m[3] - y * m[2]) / det, (-x * m[1] + y * m[0]) / det)
        def fwd(p):
            return (p[0] * m[0] + p[1] * m[2] + m[4], p[0] * m[1] + p[1] * m[3] + m[5])
        toks, dev2 = [], []
        for o in dev:
            us = [inv((o[k], o[k + 1])) for k in range(1, len(o), 2)]
            us = [(bits_f32(FB(u[0])), bits_f32(FB(u[1]))) for u in us]
            toks.append("%s %s%s" % (o[0], " ".join("%d %d" % (FB(u[0]), FB(u[1])) for u in us), " K 0" if o[0] == "C" else ""))
            dev2.append((o[0],) + tuple(v for u in us for v in fwd(u)))     # the exact device-space curve of the f32 user points
        dev = dev2
        if closed:
            toks.append("Z")
        style = "STYLE %d %s %s %d 0 %d" % (FB(width / s), cap, join, FB(4.0), FB(0.0))
        scenes.append("scene %d %d %d I %s ; xf %s ; stroke %s %s SRC solid ffffffff 3 %d 1" % (
            i, W, H, zero, scene.xf_tokens(m), scene.path_tokens(toks, 0), style, FB(1.0)))
        meta.append((dev, closed, width, join))
    impl, died = build.run_sharded(build.RQV, sc.augment(scenes))
    checked = 0
    for line, sc_line, (dev, closed, width, join) in zip(impl, scenes, meta):
        parts = scene.split_results(line)[1]
        if len(parts) < 2 or parts[1] in ("panic", "hang"):
            continue
        px = sc.OpRes(parts[1]).parse()["surface"]
        pts = [dev[0][1:3]]
        for o in dev[1:]:
            ctrl = [(o[k], o[k + 1]) for k in range(1, len(o), 2)]
            pts += geom.curve_points(o[0], [pts[-1]] + ctrl, 256)[1:]
        if closed:
            pts.append(pts[0])
        cum = [0.0]
        for j in range(len(pts) - 1):
            cum.append(cum[-1] + math.hypot(pts[j + 1][0] - pts[j][0], pts[j + 1][1] - pts[j][1]))
        for y in range(0, H):
            for x in range(y % 2, W, 2):
                u = (x + 0.5, y + 0.5)
                best, bi = 1e30, 0
                for j in range(len(pts) - 1):
                    d = geom.seg_dist(u, pts[j], pts[j + 1])
                    if d < best:
                        best, bi = d, j
                a = int(px[y * W + x], 16) >> 24
                checked += 1
                if best > width / 2 + 1.0 + 0.71 and a != 0:
                    ctx.violation("cpx-%s" % sc_line.split()[1], sc_line, "pixel (%d,%d) is %.2f px from the curve, farther than half the width (%.1f) plus the margin, but has alpha %d" % (x, y, best, width / 2, a))
                    return
                # near an open end the cap's edge crosses the pixel: only judged 3 px of arc length away from both ends
                at_end = not closed and (cum[bi + 1] < 3.0 or cum[-1] - cum[bi] < 3.0)
                # with bevel joins the wedge beyond the bevel at a sharp turn is rightly left out: judged with round joins only
                if join == "round" and best < width / 2 - 1.0 - 0.71 and not at_end and a != 255:
                    ctx.violation("cpx-%s" % sc_line.split()[1], sc_line, "pixel (%d,%d) is %.2f px from the curve, inside half the width (%.1f) by more than the margin, but has alpha %d" % (x, y, best, width / 2, a))
                    return
    ctx.cov["pixels_checked_against_curved_region"] = checked


ASSUME = ["f32 hypot = correctly rounded sqrt(x^2+y^2) in f64 (glibc); the f64 region oracle is a search aid, not a proof",
          "pixel oracle uses identity/translation/uniform scale transforms and the half-pixel margin of straight paths"]


def run(ctx):
    if core.prepare(ctx):
        pixel_check(ctx)
        if not ctx.violations:
            curved_check(ctx)
    return _path.run_property(ctx, make_lines, RULE, oracle, ASSUME, lambda a, i: a.count(" L ") >= 2, 4000, 80000,
                              "PathOps.stroke_to_path vs raqote::stroke_to_path")


def replay(ctx, path):
    return _path.replay(ctx, path, oracle, "PathOps.stroke_to_path vs raqote::stroke_to_path")
