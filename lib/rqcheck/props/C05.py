"""C05 - the effective clip is the intersection of every clip pushed and not yet popped."""
from .. import scenecheck as sc, scene
from . import _scene, C02

CFG = dict(nops=9, maxdim=9, init="random", p_clip=0.4, p_layer=0.08, p_xf=0.08, p_structured=0.5,
           sources=["solid", "solid", "solid", "image", "linear"], modes=[3, 3, 3, 1, 2, 11, 13, 23], draw_kinds=["fill", "fill", "fillrect", "clear", "mask", "stroke"])
RULE = ("random scenes dominated by push_clip_rect / push_clip / pop_clip in any order and nesting (overlapping, disjoint, "
        "inverted, off-surface and oversize rectangles; partial-coverage paths), drawing after every push and pop with solid, image and gradient sources; the "
        "implementation's clip bounds and clip mask (hook verif_clip) are compared with the model's summary after every op and "
        "the frame oracle of C02 checks that nothing changes outside the intersection; non-trivial = scene with >= 2 clip "
        "pushes and a drawing op that changed and preserved pixels")


def concrete(sr, i, k, c, op):
    if c.get("clipdiff"):
        return "clip bounds or clip mask differ from the intersection of the pushed clips"
    if c.get("frame", 0) > 0:
        return "pixels outside the clip intersection changed"
    if c.get("formula", 0) > 0 and k < len(sr.model[i]) and not sr.model[i][k].panic:
        # while a clip path is in force, the change of a pixel must be the unclipped change scaled by the clip coverage:
        # a value that no coverage explains is not
        clip = sr.model[i][k].parse()["clip"].split()
        if clip and clip[-1] != "none":
            return "under a clip path a pixel's change is not the unclipped change scaled by the clip coverage"
    return None


def nontrivial(sr, i):
    hdr, ops = scene.split_ops(sr.aug[i])
    return sum(1 for o in ops if o.startswith("clip")) >= 2 and _scene.default_nontrivial(sr, i)


ASSUME = ["clip coverage of a path is the model's antialiased coverage (C01); the product is the muldiv255 fold in push order"]


def run(ctx):
    return _scene.run_property(ctx, CFG, 2500, 20000, RULE, concrete, ASSUME, post=C02.post, nontrivial=nontrivial)


def replay(ctx, path):
    return _scene.replay(ctx, path, concrete, C02.post)
