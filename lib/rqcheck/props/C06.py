"""C06 - a layer is an isolated group composited once with its opacity and blend mode."""
from .. import scenecheck as sc, scene
from . import _scene, C02

CFG = dict(nops=9, maxdim=9, init="random", p_clip=0.2, p_layer=0.3, p_xf=0.08, p_structured=0.6,
           sources=["solid", "solid", "image"], draw_kinds=["fill", "fill", "fillrect", "clear", "clear", "mask", "stroke", "drawimage"])
RULE = ("random scenes with layers nested to depth >= 2, opacity in [0,1] and all 28 layer blend modes, pushed under clip "
        "rectangles at an offset, clip paths and empty clips, with clears, clip changes and transform changes inside; the top "
        "layer's buffer and rectangle (hook verif_top_layer) and the surface are compared with the model after every op; a "
        "difference at push_layer/pop_layer, in the layer rectangle, or in a buffer below the innermost layer is a failing "
        "input; non-trivial = scene with a layer in which something was drawn and that changed the target at pop")


def concrete(sr, i, k, c, op):
    kind = sc.op_kind(op)
    if c.get("layerrect"):
        return "layer rectangle differs (layer must cover the clip bounds in force at push)"
    if kind == "poplayer" and (c.get("formula", 0) > 0 or c.get("frame", 0) > 0):
        return "pop_layer did not composite the layer once with its opacity and blend mode through the current clip"
    if kind == "poplayer" and k < len(sr.impl[i]) and k < len(sr.model[i]) and not sr.model[i][k].panic:
        # the destination of a pop is the surface or the enclosing layer; both are observable after the op and the model is
        # the statement (one composite of the whole layer): any pixel difference, or a panic, at this op is a failure
        if sr.impl[i][k].panic:
            return "pop_layer panicked instead of compositing the layer"
        a, b = sr.impl[i][k].parse(), sr.model[i][k].parse()
        if a["surface"] != b["surface"] or (a["layer"] or [None, None])[1] != (b["layer"] or [None, None])[1]:
            return "pop_layer did not composite the layer once with its opacity and blend mode into the buffer below it"
    if kind == "layer":
        return "push_layer changed something observable other than opening an empty transparent layer"
    if c.get("frame", 0) > 0:
        return "a buffer other than the innermost layer changed while the layer was open"
    return None


def nontrivial(sr, i):
    hdr, ops = scene.split_ops(sr.aug[i])
    for k, o in enumerate(ops):
        if o == "poplayer" and k < len(sr.model[i]) and sr.model[i][k].region and "1" in sr.model[i][k].region:
            return True
    return False


ASSUME = ["the isolated-surface semantics is the model's (theorems in Properties/C06.v); opacity byte = (opacity*255+0.5) as u8"]


def run(ctx):
    return _scene.run_property(ctx, CFG, 3000, 20000, RULE, concrete, ASSUME, post=C02.post, nontrivial=nontrivial)


def replay(ctx, path):
    return _scene.replay(ctx, path, concrete, C02.post)
