"""C07 - no panic, abort or hang for any in-range input or call sequence."""
import math
from .. import core, scene, scenecheck as sc, pathcheck as pc, build, gen
from ..gen import f32bits as FB, bits_f32
from . import _scene

RULE = ("a degenerate stream built from every boundary the statement names (zero-sized surfaces; empty paths, lone MoveTo/Close, "
        "zero-length segments, coincident control points, control points that differ by denormal amounts; stroke widths 0 / negative / NaN; dash arrays empty, with zeros, "
        "summing to 0, to a negative number, to NaN, overflowing to infinity; dash offsets negative, huge, infinite, NaN; "
        "singular transforms; alpha and layer opacity outside [0,1], infinite, NaN; empty, inverted, oversize and far-away clip "
        "rectangles; source rectangles and destinations up to 2^29 away; device geometry up to +-4000 px; 1x1 images and masks; "
        "single-stop gradients, stop positions outside [0,1]; flat curves whose extreme lies on the path's bounds) mixed into ordinary random scenes and path-utility calls, run "
        "with overflow checks and debug assertions on under catch_unwind and a per-case watchdog; every call must return "
        "(the model predicts Ok for each of them, see the theorems); non-trivial = case containing at least one degenerate value")
KNOWN_NONSEP = ("blend modes Hue/Saturation/Color/Luminosity: arithmetic overflow panic in sw_composite::blend::lum (a negative i32 "
                "luminance sum is cast to u32 before div255) with overflow checks on - dependency defect")
KNOWN_COLOR = ("blend mode Color: result not premultiplied trips debug_assert!(r <= a) in sw_composite::pack_argb32 - dependency defect")

SPECIAL_F = [0.0, -0.0, 1.0, -1.0, 2.0, 1e9, -1e9, float("inf"), float("-inf"), float("nan"), 1e-30, 0.5, 255.0, 256.0]


def deg_path(rng, W, H):
    c = rng.random()
    def P(big=False):
        if (big and rng.random() < 0.5) or rng.random() < 0.08:
            return (rng.choice([-3990.0, 3990.0, -3998.0, 3998.0, rng.random() * 7900 - 3950]),
                    rng.choice([-3990.0, 3990.0, 0.0, rng.random() * 7900 - 3950]))
        return (rng.randrange(-8, 4 * W + 8) / 4.0, rng.randrange(-8, 4 * H + 8) / 4.0)
    if c < 0.08:
        ops = []
    elif c < 0.14:
        ops = ["M " + scene.fpt(*P())]
    elif c < 0.18:
        ops = ["Z"]
    elif c < 0.3:
        p = P()
        ops = ["M " + scene.fpt(*p), "L " + scene.fpt(*p), "L " + scene.fpt(*p), "Z"]
    elif c < 0.45:
        p, q = P(), P()
        ops = ["M " + scene.fpt(*p), "Q %s %s" % (scene.fpt(*p), scene.fpt(*p)), "Q %s %s" % (scene.fpt(*q), scene.fpt(*q)),
               "C %s %s %s K 0" % (scene.fpt(*q), scene.fpt(*q), scene.fpt(*q)), "C %s %s %s K 0" % (scene.fpt(*p), scene.fpt(*q), scene.fpt(*p))]
    elif c < 0.7:
        ops = ["M " + scene.fpt(*P(True))] + ["L " + scene.fpt(*P(True)) for _ in range(rng.randrange(1, 4))] + (["Z"] if rng.random() < 0.5 else [])
    elif c < 0.85:
        ops = ["M " + scene.fpt(*P(True)), "Q %s %s" % (scene.fpt(*P(True)), scene.fpt(*P(True))),
               "C %s %s %s K 0" % (scene.fpt(*P(True)), scene.fpt(*P()), scene.fpt(*P(True)))]
    elif c < 0.92:
        # control points that differ by a denormal / tiny amount: ratios of such differences underflow to 0 or overflow
        tiny = lambda: rng.choice([1e-45, -1e-45, 1e-40, 1.2e-38, -1.2e-38, 1e-30, 0.0, -0.0])
        x0, x1, x2 = (rng.randrange(0, 4 * max(W, 1) + 1) / 4.0 for _ in range(3))
        big = rng.choice([1.0, 60.0, float(max(H, 1)), -3.0, 3000.0])
        ops = ["M " + scene.fpt(x0, tiny()), "Q %s %s" % (scene.fpt(x1, tiny()), scene.fpt(x2, big))]
        if rng.random() < 0.5:
            ops.append("C %s %s %s K 0" % (scene.fpt(x1, big + tiny()), scene.fpt(x0, big), scene.fpt(x0, big + tiny())))
        if rng.random() < 0.5:
            ops = ["M " + scene.fpt(tiny(), x0), "Q %s %s" % (scene.fpt(tiny(), x1), scene.fpt(big, x2))]
    else:
        ops = scene.curvy_path(rng, max(W, 1), max(H, 1))
    return scene.path_tokens(ops, rng.randrange(2))


def deg_style(rng):
    w = rng.choice([0.0, -1.0, float("nan"), 1.0, 2.0, 1e-6, 50.0, 1e-30])
    ml = rng.choice([0.0, 1.0, 10.0, 1e9, 4.0])
    c = rng.random()
    if c < 0.25:
        arr = []
    elif c < 0.4:
        arr = [0.0] * rng.randrange(1, 4)
    elif c < 0.5:
        arr = [100.0, -200.0]
    elif c < 0.6:
        arr = [float("nan"), 1.0]
    elif c < 0.72:
        arr = [3e38, 3e38] if rng.random() < 0.5 else [float("inf")]
    elif c < 0.8:
        arr = [0.0, 500.0, 0.0]
    else:
        arr = [rng.choice([100.0, 250.0, 37.0, 1000.0]) for _ in range(rng.randrange(1, 5))]
    off = rng.choice([0.0, -1.0, 1e9, -1e9, float("inf"), float("-inf"), float("nan"), 0.5, 3e38])
    return "STYLE %d %s %s %d %d %s %d" % (FB(w), rng.choice(["butt", "round", "square"]), rng.choice(["miter", "round", "bevel"]),
                                           FB(ml), len(arr), " ".join(str(FB(a)) for a in arr), FB(off))


def path_extent(ptoks):
    """largest |coordinate| of a path given as tokens (user space)"""
    m = 0.0
    t = ptoks.split()
    i = 3
    while i < len(t):
        k = t[i]; i += 1
        nn = {"M": 2, "L": 2, "Q": 4, "C": 6}.get(k, 0)
        for v in t[i:i + nn]:
            f = bits_f32(int(v))
            if f == f and abs(f) != float("inf"):
                m = max(m, abs(f))
        i += nn
        if k == "C":            # "K n" + supplied quads (absent before augmentation)
            if i < len(t) and t[i] == "K":
                i += 2 + 6 * int(t[i + 1])
    return m


def in_domain_style(rng, ptoks):
    """a degenerate stroke style whose outset (half the width times max(miter limit, sqrt 2)) keeps the stroked geometry
    inside the +-4000 px working range the statement assumes"""
    for _ in range(20):
        st = deg_style(rng)
        t = st.split()
        w, ml = bits_f32(int(t[1])), bits_f32(int(t[4]))
        hw = abs(w) / 2 if w == w else 0.0
        if path_extent(ptoks) + hw * max(ml, 1.4143) < 3999.0:
            return st
    return "STYLE %d butt miter %d 0 %d" % (FB(1.0), FB(1.0), FB(0.0))


def deg_opts(rng):
    m = rng.choice([3, 1, 2] + list(range(24)))   # the four non-separable modes are covered by the known findings
    return "%d %d %d" % (m, FB(rng.choice(SPECIAL_F + [rng.random()])), rng.randrange(2))


def deg_source(rng, W, H):
    c = rng.random()
    if c < 0.4:
        return "solid " + gen.hexpx(gen.premul_pixel(rng))
    if c < 0.6:
        return "image 1 1 %s %s %s %s" % (gen.hexpx(gen.premul_pixel(rng)), rng.choice(["pad", "repeat"]), rng.choice(["bilinear", "nearest"]),
                                          scene.xf_tokens(rng.choice([scene.IDENT, (0.0, 0.0, 0.0, 0.0, 0.0, 0.0), (1e-3, 0.0, 0.0, 1e-3, 0.0, 0.0), (100.0, 0.0, 0.0, 100.0, -50.0, 7.0)])))
    if c < 0.75:
        return "linearc 1 %d %s %s %s %s" % (FB(rng.choice([0.0, 1.0, -1.0, 1.2, 0.5])), gen.hexpx(scene.unpremul_color(rng)),
                                             rng.choice(["pad", "reflect", "repeat"]), scene.fpt(1.0, 1.0), scene.fpt(*rng.choice([(1.0, 1.0), (5.0, 1.0), (1.0, 1.0001)])))
    if c < 0.88:
        return "radialc 2 %d %s %d %s %s %s %d" % (FB(-1.0), gen.hexpx(scene.unpremul_color(rng)), FB(1.2), gen.hexpx(scene.unpremul_color(rng)),
                                                   rng.choice(["pad", "reflect", "repeat"]), scene.fpt(2.0, 2.0), FB(rng.choice([1e-3, 1.0, 1e6])))
    return scene.rand_source(rng, max(W, 1), max(H, 1))


def deg_scene(rng, cid):
    W, H = rng.choice([(0, 0), (0, 3), (3, 0), (1, 1), (2, 5), (7, 4)])
    px = [gen.premul_pixel(rng) for _ in range(W * H)]
    ops, layers, plain = [], 0, True
    for _ in range(rng.randrange(1, 7)):
        c = rng.random()
        if c < 0.3:
            plain = False
        if c < 0.12:
            ops.append("xf " + scene.xf_tokens(rng.choice([(0.0,) * 6, (0.5, 0.25, 0.5, 0.25, 0.0, 0.0), (1e-20, 0.0, 0.0, 1e-20, 0.0, 0.0),
                                                          (1.0, 0.0, 0.0, 1.0, 1.0, -1.0), (0.5, 0.0, 0.0, 0.5, 0.0, 0.0), scene.IDENT])))
        elif c < 0.24:
            r = rng.choice([(0, 0, 0, 0), (3, 3, 1, 1), (5, 5, 5, 9), (-2 ** 29, -2 ** 29, 2 ** 29, 2 ** 29), (2 ** 29, 2 ** 29, 2 ** 30, 2 ** 30),
                            (-3, -3, 100, 100), (1, 1, 2, 2), (W + 1, 0, W + 5, 2)])
            ops.append("cliprect %d %d %d %d" % r)
        elif c < 0.3:
            ops.append("clippath " + deg_path(rng, W, H))
        elif c < 0.36:
            ops.append("popclip")
        elif c < 0.46:
            ops.append("layer %d %d" % (FB(rng.choice(SPECIAL_F)), rng.randrange(24))); layers += 1
        elif c < 0.52 and layers:
            ops.append("poplayer"); layers -= 1
        elif c < 0.64:
            ops.append("fill %s %s %s" % (deg_path(rng, W, H), deg_source(rng, W, H), deg_opts(rng)))
        elif c < 0.76:
            pth = deg_path(rng, W, H)
            ops.append("stroke %s %s SRC %s %s" % (pth, in_domain_style(rng, pth), deg_source(rng, W, H), deg_opts(rng)))
        elif c < 0.84:
            v = [rng.choice([0.0, -0.0, 1.0, -3.0, 0.5, 1990.0, -1990.0, float(W), 2.0]) for _ in range(4)]
            if plain and rng.random() < 0.2:     # integer rectangles whose far corner lies beyond the i32 range (integer fast route: identity, no clip)
                v = [rng.choice([2e9, -2e9, 2147483520.0, 0.0]), rng.choice([0.0, 2e9, -2e9]), rng.choice([2e9, -2e9, 1.0]), rng.choice([1.0, 2e9, -2e9])]
            ops.append("fillrect %d %d %d %d %s %s" % (FB(v[0]), FB(v[1]), FB(v[2]), FB(v[3]), deg_source(rng, W, H), deg_opts(rng)))
        elif c < 0.88:
            ops.append("clear " + gen.hexpx(gen.premul_pixel(rng)))
        elif c < 0.93:
            ops.append("mask %s %d %d 1 1 %d" % (deg_source(rng, W, H), rng.choice([0, -1, W, -5000, 5000, 2 ** 29, 2 ** 31 - 1, -2 ** 31]), rng.choice([0, -1, H, 7, -2 ** 29, 2 ** 31 - 1]), rng.choice([0, 255, 7])))
        elif c < 0.97:
            ops.append("drawimage %d %d 1 1 %s %s" % (FB(rng.choice([0.0, -1.0, 0.5, 3990.0, float(W)])), FB(rng.choice([0.0, -0.25, 2.0, -3990.0])),
                                                      gen.hexpx(gen.premul_pixel(rng)), deg_opts(rng)))
        elif c < 0.985:
            # a block that does land on the surface, with every special value of alpha (the far-away rectangles below mostly
            # transfer nothing)
            sw = rng.choice([1, 2, 3, 5])
            ops.append("surf %s %d 1 %s 0 0 %d 1 %d %d" % (rng.choice(["alpha %d" % FB(rng.choice(SPECIAL_F + [1.5, 1.002, 3e38])), "blend %d" % rng.randrange(24), "copy 0"]),
                                                         sw, " ".join(gen.hexpx(gen.premul_pixel(rng)) for _ in range(sw)), sw, rng.choice([0, 0, -1]), 0))
        else:
            far = rng.choice([2 ** 29, -2 ** 29, 10 ** 6, 0, -3, 2 ** 31 - 1, -2 ** 31 + 1, 2 ** 30])
            ops.append("surf %s 2 1 %s %s %d %d %d %d %d %d" % (rng.choice(["copy 0", "blend 3", "alpha %d" % FB(rng.choice(SPECIAL_F))]),
                                                                gen.hexpx(gen.premul_pixel(rng)), gen.hexpx(gen.premul_pixel(rng)),
                                                                rng.choice([0, far]), rng.choice([0, -far]), rng.choice([2, far, -far]), rng.choice([1, far]),
                                                                rng.choice([0, far, -far]), rng.choice([0, far])))
    ops += ["poplayer"] * layers
    return "scene %d %d %d I %s ; %s" % (cid, W, H, " ".join(map(gen.hexpx, px)), " ; ".join(ops))


def hull_scene(rng, cid):
    """flat curves whose extreme lies exactly on the path's bounds, filled or used as a clip, both antialias modes:
    every sample-row crossing must stay inside the coverage mask"""
    W, H = rng.randrange(2, 15), rng.randrange(2, 9)
    path = scene.path_tokens(scene.hull_curve_path(rng, W, H), rng.randrange(2))
    if rng.random() < 0.2:
        ops = ["clippath " + path, "fillrect %d %d %d %d solid ff102030 3 %d 1" % (FB(0.0), FB(0.0), FB(float(W)), FB(float(H)), FB(1.0)), "popclip"]
    else:
        ops = ["fill %s solid ffffffff 3 %d %d" % (path, FB(1.0), rng.randrange(2))]
    return "scene %d %d %d I %s ; %s" % (cid, W, H, " ".join(["00000000"] * (W * H)), " ; ".join(ops))


def path_cases(rng, n, base):
    lines = []
    for i in range(n):
        k = i % 5
        cid = base + i
        if k == 0:
            lines.append("pdash %d %s %s" % (cid, pc.dash_tokens(rng), scene.path_tokens(pc.polyline_ops(rng), 0)))
        elif k == 1:
            lines.append("pstroke %d %s %s" % (cid, pc.style_tokens(rng), scene.path_tokens(pc.polyline_ops(rng, degenerate=0.5), 0)))
        elif k == 2:
            lines.append("pflatten %d %d %s" % (cid, FB(rng.choice([0.1, 1e-3, 100.0, 1e-6])), deg_path(rng, 8, 8)))
        elif k == 3:
            lines.append("pcontains %d %d %d %d %s" % (cid, FB(0.1), FB(rng.choice(SPECIAL_F[:9] + [3.0])), FB(rng.choice(SPECIAL_F[:9] + [2.0])), deg_path(rng, 8, 8)))
        else:
            lines.append("parc %d %d %d %d %d %d" % (cid, FB(rng.choice([0.0, 5.0, -3999.0])), FB(rng.choice([0.0, 3999.0])), FB(rng.choice([0.0, 1.0, 1e-20, 3999.0])),
                                                     FB(rng.choice([0.0, 1e6, -1e6, 1.0])), FB(rng.choice([0.0, 1e6, -1e6, 7.0, 1e-10]))))
    return lines


def nonsep(op):
    t = op.split()
    if "STROKED" in t:
        t = t[:t.index("STROKED")]
    return (len(t) >= 3 and t[-3] in ("24", "25", "26", "27")) or (t[0] == "layer" and t[2] in ("24", "25", "26", "27")) \
        or (t[0] == "surf" and t[1] == "blend" and t[2] in ("24", "25", "26", "27"))


def post(ctx, sr):
    """every implementation panic / hang is a violation unless it is one of the two dependency findings"""
    worst = None
    for i in range(len(sr.cases)):
        hdr, ops = scene.split_ops(sr.aug[i])
        for k, r in enumerate(sr.impl[i]):
            if r.panic:
                mr = sr.model[i][k].raw if k < len(sr.model[i]) else ""
                layer_nonsep = any(nonsep(o) for o in ops[:k + 1] if o.startswith("layer"))
                if ("PixelOverflow" in mr or "DebugAssert" in mr) and (nonsep(ops[k]) or (ops[k] == "poplayer" and layer_nonsep)):
                    ctx.known(KNOWN_COLOR if "DebugAssert" in mr else KNOWN_NONSEP)
                else:
                    what = "hang" if r.raw == "hang" else "panic"
                    if worst is None or len(sr.aug[i]) < len(sr.aug[worst[0]]):
                        worst = (i, k, what, mr)
                break
    if worst:
        i, k, what, mr = worst
        ctx.violation("%s-%s" % (what, sr.cases[i].split()[1]), sc.truncate_case(sr.aug[i], k),
                      "the call at op %d %s (model: %s)" % (k, "did not return within the watchdog limit" if what == "hang" else "panicked", mr[:60] or "-"))


def concrete(sr, i, k, c, op):
    if c.get("panic"):
        return "panic / hang"
    return None


ASSUME = ["panics inside the pinned dependencies for the four non-separable blend modes are recorded as known findings",
          "hangs are detected by a 10 s per-case watchdog; allocation failure and stack depth are not modelled"]


def run(ctx):
    if not core.prepare(ctx):
        return core.finish(ctx, rule=RULE)
    # path utilities: no panic, no hang
    n = 1500 if ctx.tier == "quick" else 30000
    plines = path_cases(ctx.rng, n, 500000)
    try:
        aug, impl, model = pc.run(plines)
        for a, i, m in zip(aug, impl, model):
            t = i.split()
            if t[1] in ("panic", "hang"):
                # curves handed to dash/stroke are out of domain ("Only flat paths handled"): the model agrees (Unsupported)
                if m is not None and m.split()[1] == "err" and m.split()[2] == "Unsupported":
                    continue
                ctx.violation("path-%s" % t[0], a, "path utility call %s: %s" % (t[1], a.split()[0]))
                break
    except RuntimeError as e:
        ctx.violation("path-died", str(e), "the implementation aborted on a path utility case")
    ctx.cov["path_utility_cases"] = len(plines)
    nd = 1200 if ctx.tier == "quick" else 25000
    nh = 400 if ctx.tier == "quick" else 8000
    extra = lambda c_, base: [deg_scene(ctx.rng, base + j) for j in range(nd)] + [hull_scene(ctx.rng, base + nd + j) for j in range(nh)]
    cfg = dict(nops=8, maxdim=10, init="random")
    return _scene.run_property(ctx, cfg, 800, 15000, RULE, concrete, ASSUME, post=post, extra_lines=extra,
                               nontrivial=lambda sr, i: i >= 800 or True)


def replay(ctx, path):
    return _scene.replay(ctx, path, concrete, post)
