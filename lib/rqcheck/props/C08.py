"""C08 - curved paths fill their true interior (quads, cubics, arcs, any transform)."""
import math
from .. import core, scene, scenecheck as sc, geom, build, gen
from ..gen import f32bits as FB, bits_f32
from . import _scene, _path

CFG = dict(nops=3, maxdim=14, init="zero", p_clip=0.0, p_layer=0.0, p_xf=0.3, p_structured=0.0, sources=["solid"], modes=[3],
           draw_kinds=["fill"], curves=1.0, p_zero_dim=0.0)
RULE = ("paths mixing move/line/quad/cubic/close with arbitrary (non-monotonic, looping, cusped, coincident) control points, "
        "quarter-grid and general, both winding rules, under identity, exact-family and general invertible transforms, filled "
        "and used as clip paths, also built with PathBuilder::arc as the first call, after lines and directly after close(): all pixels are compared with the model (integer curve edges; lyon's cubic-to-quadratic "
        "output supplied by the harness); the statement is evaluated in f64 on white-on-transparent fills: the winding number "
        "of a 128-segment-per-curve flattening of the transformed path decides inside/outside (shapes up to 64 px, and large user-space shapes under down-scaling transforms included), pixels farther than 1 px "
        "(+ half diagonal) from the outline must be 255 inside and 0 outside; non-trivial = path with a curve that painted "
        "something")


def fine_polygons(ops, m):
    """device-space subpaths (implicitly closed) of the exact shape"""
    def T(p):
        return (p[0] * m[0] + p[1] * m[2] + m[4], p[0] * m[1] + p[1] * m[3] + m[5])
    subs, cur, first, pts = [], None, None, []
    def close():
        nonlocal pts, cur
        if len(pts) > 1:
            subs.append(pts)
        pts = [first] if first is not None else []
        cur = first
    for o in ops:
        if o[0] == "M":
            if len(pts) > 1:
                subs.append(pts)
            cur = first = T((o[1], o[2])); pts = [cur]
        elif o[0] == "L":
            p = T((o[1], o[2]))
            if cur is None:
                first = p; pts = []
            pts.append(p); cur = p
        elif o[0] in ("Q", "C"):
            ctrl = [T((o[k], o[k + 1])) for k in range(1, len(o), 2)]
            if cur is None:
                cur = first = ctrl[0]; pts = [cur]
            full = [cur] + ctrl
            cp = geom.curve_points(o[0], full, 128)
            pts.extend(cp[1:]); cur = ctrl[-1]
        elif o[0] == "A":
            # PathBuilder::arc: a straight line from the current point to the arc's first point, then the circle from the
            # start angle over the sweep (at most one full turn)
            x, y, r, a0, sw = o[1:6]
            sw = max(-2 * math.pi, min(2 * math.pi, sw))
            p = T((x + r * math.cos(a0), y + r * math.sin(a0)))
            if cur is None:
                first = p; pts = []
            pts.append(p)
            for k in range(1, 129):
                a = a0 + sw * k / 128.0
                pts.append(T((x + r * math.cos(a), y + r * math.sin(a))))
            cur = pts[-1]
        elif o[0] == "Z":
            close()
    if len(pts) > 1:
        subs.append(pts)
    return subs


def winding(subs, p):
    wn = 0
    for pts in subs:
        n = len(pts)
        for i in range(n):
            a, b = pts[i], pts[(i + 1) % n]
            if a[1] <= p[1] < b[1]:
                if (b[0] - a[0]) * (p[1] - a[1]) - (b[1] - a[1]) * (p[0] - a[0]) > 0:
                    wn += 1
            elif b[1] <= p[1] < a[1]:
                if (b[0] - a[0]) * (p[1] - a[1]) - (b[1] - a[1]) * (p[0] - a[0]) < 0:
                    wn -= 1
    return wn


def outline_dist(subs, p):
    d = 1e30
    for pts in subs:
        n = len(pts)
        for i in range(n):
            d = min(d, geom.seg_dist(p, pts[i], pts[(i + 1) % n]))
    return d


def scale_ops(ops, k):
    out = []
    for o in ops:
        t = o.split()
        if t[0] in ("M", "L", "Q", "C"):
            nn = {"M": 2, "L": 2, "Q": 4, "C": 6}[t[0]]
            vals = [FB(bits_f32(int(v)) * k) for v in t[1:1 + nn]]
            out.append(" ".join([t[0]] + [str(v) for v in vals] + t[1 + nn:]))
        else:
            out.append(o)
    return out


def pixel_oracle(ctx):
    rng = ctx.rng
    n = 200 if ctx.tier == "quick" else 3000
    scenes, meta = [], []
    for i in range(n):
        W = H = 20
        kind = i % 10
        if kind == 8:
            W = H = 64          # large shapes: too few subdivisions of a curve cut its corner by pixels, not fractions
        ops = scene.curvy_path(rng, W, H)
        rule = rng.randrange(2)
        xf = scene.rand_xf(rng, general=0.6)
        if xf[0] * xf[3] - xf[1] * xf[2] == 0:
            xf = scene.IDENT
        if kind == 5:
            # thin sideways quadratics ("darts", flat S shapes): a few pixels tall with the control point hundreds of pixels to
            # the side, so that the curve has many more segments than sample rows; and tall quadratics whose vertical extremum
            # lies within a hundredth of the parameter range of one end
            W = H = 48
            if rng.random() < 0.6:
                W, H = 320, 32          # the whole dart is in view: its tip lies half the control point's swing away
                ya = rng.randrange(0, 4 * H - 64) / 4.0
                hgt = rng.choice([2.0, 4.0, 5.0, 7.5, 12.0, 15.75])
                side = rng.choice([-1, 1]) * rng.choice([150.0, 400.0, 600.0, 900.0])
                x0_ = rng.randrange(20, 160) / 4.0 if side > 0 else W - rng.randrange(20, 160) / 4.0
                x2_ = x0_ + rng.choice([0.0, 0.0, 3.0, -2.5])
                c_ = (x0_ + side, ya + hgt * rng.choice([0.5, 0.3, 0.8]))
                ops = ["M " + scene.fpt(x0_, ya), "Q %s %s" % (scene.fpt(*c_), scene.fpt(x2_, ya + hgt)), "Z"]
                if rng.random() < 0.3:
                    ops = ["M " + scene.fpt(x0_, ya), "Q %s %s" % (scene.fpt(*c_), scene.fpt(x2_, ya + hgt)),
                           "Q %s %s" % (scene.fpt(x2_ - side, ya + hgt * 1.5), scene.fpt(x0_, ya + 2 * hgt)), "Z"]
                xf = scene.IDENT
            else:
                S = rng.choice([400, 1000, 2500])
                y0_, y2_ = rng.randrange(0, S) / 1.0, rng.randrange(0, S) / 1.0
                tt = rng.choice([0.004, 0.01, 0.015, 0.99, 0.996, 0.02])
                y1_ = (y0_ - tt * (y0_ + y2_)) / (1 - 2 * tt)
                xa, xb, xc = rng.randrange(0, S) / 1.0, rng.randrange(0, S) / 1.0, rng.randrange(0, S) / 1.0
                ops = ["M " + scene.fpt(xa, y0_), "Q %s %s" % (scene.fpt(xb, y1_), scene.fpt(xc, y2_)), "Z"]
                tq = rng.random()
                cq = geom.quad((xa, y0_), (xb, y1_), (xc, y2_), tq)
                xf = (1.0, 0.0, 0.0, 1.0, float(-(int(cq[0]) - rng.randrange(4, W - 4))), float(-(int(cq[1]) - rng.randrange(4, H - 4))))
        if kind == 6:
            # paths built with PathBuilder::arc among the other calls: as the first call, directly after close(), after
            # lines; the exact shape has a straight edge from the current point (after close: the subpath's start) to
            # the arc's first point
            W = H = 40
            def P():        # polygon vertices: upper left part of the surface
                return (rng.randrange(0, 2 * W) / 4.0, rng.randrange(0, 2 * H) / 4.0)
            def arc():      # arcs: lower right part, pixels wide, so that the edge joining them to the path encloses area
                c = (rng.randrange(2 * W, 3 * W + W // 2) / 4.0, rng.randrange(2 * H, 3 * H + H // 2) / 4.0)
                return "A %d %d %d %d %d" % (FB(c[0]), FB(c[1]), FB(rng.choice([5.0, 7.5, 9.0, 3.0])), FB(rng.choice([0.0, 1.0, math.pi / 2, -2.0, 4.0])),
                                           FB(rng.choice([math.pi, -math.pi, 1.5, -2.5, 2 * math.pi, math.pi / 2, 4.0, -1.0, 2.5, -4.5, 7.0])))
            form = rng.choice([0, 1, 1, 1, 2, 3, 3])
            if form == 0:
                ops = [arc()] + (["L " + scene.fpt(*P())] if rng.random() < 0.5 else []) + (["Z"] if rng.random() < 0.5 else [])
            elif form == 1:
                ops = ["M " + scene.fpt(*P()), "L " + scene.fpt(*P()), "L " + scene.fpt(*P()), "Z", arc()] + (["Z"] if rng.random() < 0.5 else [])
            elif form == 2:
                ops = ["M " + scene.fpt(*P()), "L " + scene.fpt(*P()), arc(), "L " + scene.fpt(*P())]
            else:
                ops = ["M " + scene.fpt(*P()), arc(), "Z", arc()]
            xf = scene.IDENT if rng.random() < 0.5 else xf
        if kind == 7:
            # curves hundreds of pixels long of which the surface sees a small window (zoomed-in content): forward
            # differencing with many steps, edges that start far above / left of the surface
            S = rng.choice([300, 800, 1500, 3000, 3000, 3800])
            W = H = 48
            ops = scene.curvy_path(rng, S, S)
            if rng.random() < 0.5:      # one big quadratic closed by its chord: the longest forward-differencing runs
                # the control point far from the chord: second differences of up to twice the size of the curve
                q0 = (rng.randrange(0, S) / 4.0, rng.randrange(0, S) / 4.0)
                q2 = (S - rng.randrange(0, S) / 4.0, rng.randrange(0, S) / 4.0)
                q1 = (S / 2.0 + rng.randrange(-S, S) / 4.0, S - rng.randrange(0, S) / 8.0)
                if rng.random() < 0.5:
                    q0, q1, q2 = [(b_, a_) for a_, b_ in (q0, q1, q2)]
                ops = ["M " + scene.fpt(*q0), "Q %s %s" % (scene.fpt(*q1), scene.fpt(*q2)), "Z"]
            while ops and ops[0] == "Z":
                ops = ops[1:]
            ox, oy = rng.randrange(0, S - W), rng.randrange(0, S - H)
            # mostly: the window sits on the outline, somewhere along one of the curves
            from .C17 import curve_extremes
            cps = []
            cur = None
            for o in ops:
                t_ = o.split()
                v_ = [bits_f32(int(z)) for z in t_[1:] if z.lstrip("-").isdigit()]
                if t_[0] in ("M", "L"):
                    cur = (v_[0], v_[1])
                elif t_[0] in ("Q", "C"):
                    n_ = 4 if t_[0] == "Q" else 6
                    pts_ = [(v_[j], v_[j + 1]) for j in range(0, n_, 2)]
                    full = [cur or pts_[0]] + pts_
                    tt = rng.random()
                    cps.append(geom.quad(full[0], full[1], full[2], tt) if t_[0] == "Q" else geom.cubic(full[0], full[1], full[2], full[3], tt))
                    cur = pts_[-1]
                elif t_[0] == "Z":
                    cur = None
            if cps and rng.random() < 0.8:
                cx_, cy_ = rng.choice(cps)
                ox, oy = int(cx_) - rng.randrange(2, W - 2), int(cy_) - rng.randrange(2, H - 2)
            xf = (1.0, 0.0, 0.0, 1.0, float(-ox), float(-oy))
        if kind == 9:
            # strongly down-scaling transform with correspondingly large user-space coordinates: every tolerance the
            # code applies to curves must be a device-space tolerance
            k = rng.choice([0.01, 0.02, 0.05, 0.004])
            ops = scale_ops(ops, 1.0 / k)
            flip = rng.random() < 0.3
            xf = (k, 0.0, 0.0, -k if flip else k, rng.choice([0.0, 0.25, 3.0]), float(H) if flip else rng.choice([0.0, 0.5]))
        ptoks = scene.path_tokens(ops, rule)
        if i % 3 == 2 and kind != 6:
            body = "clippath %s ; fillrect %d %d %d %d solid ffffffff 1 %d 1" % (ptoks, FB(-100.0), FB(-100.0), FB(400.0), FB(400.0), FB(1.0))
        else:
            body = "fill %s solid ffffffff 3 %d 1" % (ptoks, FB(1.0))
        scenes.append("scene %d %d %d I %s ; xf %s ; %s" % (i, W, H, " ".join(["00000000"] * (W * H)), scene.xf_tokens(xf), body))
        meta.append((ops, rule, xf, i % 3 == 2 and kind != 6))
    # scenes kept from earlier failures of this oracle (white fill of one path under one transform) are judged again, first
    cs, cm = [], []
    for cl in core.corpus("C08", ctx.tier):
        try:
            hdr, cops = scene.split_ops(cl)
            if len(cops) != 2 or not cops[0].startswith("xf ") or not cops[1].startswith("fill P ") or "solid ffffffff 3" not in cops[1]:
                continue
            if any(v != "00000000" for v in hdr.split(" I ")[1].split()):
                continue
            xf_ = tuple(bits_f32(int(v)) for v in cops[0].split()[1:7])
            t = cops[1].split()
            rule_, nops = int(t[2]), int(t[3])
            j, pops = 4, []
            for _ in range(nops):
                k_ = t[j]
                nn = {"M": 2, "L": 2, "Q": 4, "C": 6, "Z": 0, "A": 5}[k_]
                tok = [k_] + t[j + 1:j + 1 + nn]
                j += 1 + nn
                if k_ == "C":
                    nq = int(t[j + 1]) if t[j] == "K" else 0
                    j += 2 + 6 * nq
                    tok += ["K", "0"]
                pops.append(" ".join(tok))
            cs.append("%s ; %s ; fill %s solid ffffffff 3 %d 1" % (hdr, cops[0], scene.path_tokens(pops, rule_), FB(1.0)))
            cm.append((pops, rule_, xf_, False))
        except Exception:
            continue
    eval_scenes(ctx, cs + scenes, cm + meta)


def eval_scenes(ctx, scenes, meta, what="px"):
    """run the scenes on the crate and evaluate the statement in f64 on its output; records the first violation"""
    impl, died = build.run_sharded(build.RQV, scenes)
    checked = 0
    for line, sline, m in zip(impl, scenes, meta):
        parts = scene.split_results(line)[1]
        if not parts or parts[-1] in ("panic", "hang") or len(parts) < (3 if m[3] else 2):
            continue
        px = sc.OpRes(parts[-1]).parse()["surface"]
        ops, rule, xf, isclip = m
        tops = []
        for o in ops:
            t = o.split()
            if t[0] == "C":
                t = t[:7]
            if t[0] == "A":
                t = t[:6]
            tops.append((t[0],) + tuple(bits_f32(int(v)) for v in t[1:]))
        if isclip:
            # the fill_rect under the clip is itself transformed; it covers everything only for mild transforms
            det = xf[0] * xf[3] - xf[1] * xf[2]
            if abs(det) < 0.2:
                continue
        subs = fine_polygons(tops, xf)
        if not subs or any(not geom.finite(*p) or abs(p[0]) > 4500 or abs(p[1]) > 4500 for s_ in subs for p in s_):
            continue
        W, H = int(sline.split()[2]), int(sline.split()[3])
        for y in range(H):
            for x in range(W):
                if (x + 3 * y + checked) % (2 if W <= 20 else 5):
                    continue
                c = (x + 0.5, y + 0.5)
                d = outline_dist(subs, c)
                if d <= 1.0 + 0.75:
                    continue
                checked += 1
                wn = winding(subs, c)
                ins = (wn != 0) if rule == 0 else (wn % 2 != 0)
                a = int(px[y * W + x], 16) >> 24
                if isclip and ins and a != 255:
                    # the clipped rectangle may itself not cover this pixel under this transform
                    inv_ok = True
                    if inv_ok:
                        pass
                if a != (255 if ins else 0):
                    if isclip and ins:
                        continue
                    ctx.violation("%s-%s" % (what, sline.split()[1]), sline,
                                  "pixel (%d,%d) is %.2f px from the outline and %s the exact shape (winding %d) but has alpha %d"
                                  % (x, y, d, "inside" if ins else "outside", wn, a))
                    return True
    ctx.cov["pixels_checked_against_exact_shape"] = checked


def concrete(sr, i, k, c, op):
    return None


def search(ctx, sr, mism):
    """The correspondence broke but no generated scene violates the statement by itself: magnify and shift the scenes on
    which model and crate differ most (same path, transform followed by a zoom and a translation, surface enlarged
    accordingly) - an error in the curve
    machinery grows with the size of the curve while the statement's margin stays one pixel - and evaluate the
    statement on the crate's output for those."""
    scenes, meta, scenes_of = [], [], []
    def weight(t):
        # how different the two pictures are: total alpha difference at the first differing op
        i, k = t
        try:
            a = sr.impl[i][k].parse()["surface"]; b = sr.model[i][k].parse()["surface"]
            return -sum(abs((int(x, 16) >> 24) - (int(y, 16) >> 24)) for x, y in zip(a, b))
        except Exception:
            return 0
    cand = sorted(mism, key=weight)[:14]
    for i, k in cand:
        hdr, ops = scene.split_ops(sr.aug[i])
        if k >= len(ops) or not ops[k].startswith("fill "):
            continue
        t = ops[k].split()
        rule, nops = int(t[2]), int(t[3])
        # path tokens without the augmentation ("K n" quads stay: they are recomputed by the harness)
        j, pops = 4, []
        for _ in range(nops):
            nn = {"M": 2, "L": 2, "Q": 4, "C": 6, "Z": 0}[t[j]]
            tok = [t[j]] + t[j + 1:j + 1 + nn]
            j += 1 + nn
            if tok[0] == "C":
                nq = int(t[j + 1]) if t[j] == "K" else 0
                j += 2 + 6 * nq if t[j] == "K" else 0
                tok += ["K", "0"]
            pops.append(" ".join(tok))
        xf = scene.IDENT
        for o in ops[:k]:
            if o.startswith("xf "):
                xf = tuple(bits_f32(int(v)) for v in o.split()[1:7])
        if xf[0] * xf[3] - xf[1] * xf[2] == 0:
            continue
        W, H = int(hdr.split()[2]), int(hdr.split()[3])
        rank = len(scenes_of)
        scenes_of.append(i)
        variants = [(5.0, 0, 0), (12.0, 0, 0)]
        if rank < 3:        # and shifted, for the scenes that differ most
            variants += [(8.0, 0.5, 0), (8.0, 0, 0.5)]
        for z, fx, fy in variants:
            if max(W, H) * z > 200:
                continue
            W2, H2 = int(W * z), int(H * z)
            # zoom, then shift by a fraction of the surface: the statement is invariant under both
            zx = tuple(v * z for v in xf[:4]) + (xf[4] * z + fx * W2, xf[5] * z + fy * H2)
            scenes.append("scene %d %d %d I %s ; xf %s ; fill %s solid ffffffff 3 %d 1" % (
                800000 + len(scenes), W2, H2, " ".join(["00000000"] * (W2 * H2)), scene.xf_tokens(zx),
                scene.path_tokens(pops, rule), FB(1.0)))
            meta.append((pops, rule, zx, False))
    ctx.cov["magnified_scenes_searched"] = len(scenes)
    if scenes and eval_scenes(ctx, scenes, meta, what="zoom"):
        return True
    return climb(ctx, sr, cand[:6])


def climb(ctx, sr, cand):
    """Directed search, second stage: starting from the scenes on which crate and model differ most, move the control
    points a little at a time in whatever direction makes the two pictures differ MORE (both are cheap to run on these
    small surfaces), then magnify the most different variants and evaluate the statement on the crate's output."""
    rng = ctx.rng
    seeds = []
    for i, k in cand:
        hdr, ops = scene.split_ops(sr.aug[i])
        if k >= len(ops) or not ops[k].startswith("fill "):
            continue
        t = ops[k].split()
        rule, nops = int(t[2]), int(t[3])
        j, pops = 4, []
        for _ in range(nops):
            nn = {"M": 2, "L": 2, "Q": 4, "C": 6, "Z": 0}[t[j]]
            vals = [bits_f32(int(v)) for v in t[j + 1:j + 1 + nn]]
            kind = t[j]
            j += 1 + nn
            if kind == "C" and j < len(t) and t[j] == "K":
                j += 2 + 6 * int(t[j + 1])
            pops.append((kind, vals))
        xf = scene.IDENT
        for o in ops[:k]:
            if o.startswith("xf "):
                xf = tuple(bits_f32(int(v)) for v in o.split()[1:7])
        det = xf[0] * xf[3] - xf[1] * xf[2]
        if det == 0 or not all(geom.finite(v, 0.0) for _, vs in pops for v in vs):
            continue
        W, H = int(hdr.split()[2]), int(hdr.split()[3])
        seeds.append((pops, rule, xf, W, H, abs(det) ** 0.5))
    if not seeds:
        return False

    def line_of(cid, pops, rule, xf, W, H, z=1.0, white=False):
        toks = []
        for kind, vals in pops:
            toks.append(" ".join([kind] + [str(FB(v)) for v in vals] + (["K", "0"] if kind == "C" else [])))
        zx = tuple(v * z for v in xf)
        W2, H2 = int(W * z), int(H * z)
        return "scene %d %d %d I %s ; xf %s ; fill %s solid ffffffff 3 %d 1" % (
            cid, W2, H2, " ".join(["00000000"] * (W2 * H2)), scene.xf_tokens(zx), scene.path_tokens(toks, rule), FB(1.0))

    def diff_of(srr, i):
        try:
            a = srr.impl[i][1].parse()["surface"]; b = srr.model[i][1].parse()["surface"]
            return sum(abs((int(x, 16) >> 24) - (int(y, 16) >> 24)) for x, y in zip(a, b))
        except Exception:
            return -1

    best = []
    for pops, rule, xf, W, H, sc_ in seeds:
        cur, cur_d = pops, None
        for it in range(10):
            variants = [cur]
            for _ in range(20):
                v = [(kk, list(vs)) for kk, vs in cur]
                for _ in range(rng.choice([1, 1, 2])):
                    q = rng.randrange(len(v))
                    if v[q][1]:
                        c = rng.randrange(len(v[q][1]))
                        v[q][1][c] += rng.choice([-2.0, -1.0, -0.5, -0.25, 0.25, 0.5, 1.0, 2.0]) / sc_
                variants.append(v)
            lines = [line_of(900000 + n, v, rule, xf, W, H) for n, v in enumerate(variants)]
            try:
                srr = sc.run(lines)
            except Exception:
                break
            ds = [diff_of(srr, n) for n in range(len(variants))]
            m = max(range(len(variants)), key=lambda n: ds[n])
            if cur_d is not None and ds[m] <= cur_d:
                continue
            cur, cur_d = variants[m], ds[m]
        if cur_d:
            best.append((cur_d, cur, rule, xf, W, H))
    best.sort(key=lambda t: -t[0])
    scenes, meta = [], []
    for d, pops, rule, xf, W, H in best[:4]:
        for z in (1.0, 5.0, 12.0):
            if max(W, H) * z > 200:
                continue
            ln = line_of(950000 + len(scenes), pops, rule, xf, W, H, z)
            toks = scene.split_ops(ln)[1][1].split()
            np_ = int(toks[3])
            # path tokens of the scene line, as eval_scenes expects them
            j, ptoks = 4, []
            for _ in range(np_):
                nn = {"M": 2, "L": 2, "Q": 4, "C": 6, "Z": 0}[toks[j]]
                ptoks.append(" ".join(toks[j:j + 1 + nn] + (["K", "0"] if toks[j] == "C" else [])))
                j += 1 + nn + (2 if toks[j] == "C" else 0)
            scenes.append(ln)
            meta.append((ptoks, rule, tuple(v * z for v in xf), False))
    ctx.cov["hill_climbed_scenes_searched"] = len(scenes)
    return bool(scenes) and bool(eval_scenes(ctx, scenes, meta, what="climb"))


def nontrivial(sr, i):
    return (" Q " in sr.aug[i] or " C " in sr.aug[i]) and _scene.default_nontrivial(sr, i)


ASSUME = ["lyon's cubic-to-quadratic conversion is an oracle input of the model", "the exact shape is a 128-segment-per-curve "
          "flattening in f64 (search aid, not a proof); device coordinates within +-3000 px"]


def run(ctx):
    if core.prepare(ctx):
        pixel_oracle(ctx)
    return _scene.run_property(ctx, CFG, 1500, 20000, RULE, concrete, ASSUME, nontrivial=nontrivial, search=search)


def replay(ctx, path):
    return _scene.replay(ctx, path, concrete)
