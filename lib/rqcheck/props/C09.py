"""C09 - dashes follow the dash pattern along arc length, restarted per subpath."""
import math
from .. import core, pathcheck as pc, scene, geom, scenecheck as sc
from ..gen import f32bits as FB, bits_f32
from . import _path

RULE = ("hooked dash_path on polylines (1..3 subpaths, open and closed, zero-length segments, subpaths returning to the start "
        "before Close, ops after Close), dash arrays of 1..6 entries (positive, with zeros, all zero, negative sum, NaN, "
        "infinite, overflowing sums), offsets of both signs, huge, infinite and NaN: the op list is compared bit for bit with "
        "the f32 model; on simple subpaths (x-monotone open polylines, convex closed polygons) with positive arrays the "
        "statement is evaluated on the crate's output: the emitted pieces, mapped back to arc length, must be exactly the "
        "'on' intervals of the cyclic pattern (odd arrays doubled) shifted by the offset, a piece reaching the end of a closed "
        "subpath being joined to the one at its start, an all-on pattern giving MoveTo, LineTos, Close; every input vertex "
        "strictly inside a piece is kept; total <= 0 or NaN gives an empty path; non-trivial = at least 2 pieces emitted")


def simple_subpath(rng):
    closed = rng.random() < 0.5
    if not closed:
        n = rng.randrange(2, 6)
        xs = sorted(rng.sample(range(0, 160), n))
        pts = [(x / 4.0, rng.randrange(0, 80) / 4.0) for x in xs]
    else:
        n = rng.randrange(3, 7)
        cx, cy, r = 20.0, 20.0, rng.choice([5.0, 10.0, 15.0])
        angs = sorted(rng.sample(range(0, 360, 5), n))
        pts = [(round((cx + r * math.cos(math.radians(a))) * 4) / 4.0, round((cy + r * math.sin(math.radians(a))) * 4) / 4.0) for a in angs]
        if len(set(pts)) < 3:
            return simple_subpath(rng)
    ops = ["M " + scene.fpt(*pts[0])] + ["L " + scene.fpt(*p) for p in pts[1:]]
    if closed:
        ops.append("Z")
    return ops


def pos_dash_tokens(rng):
    n = rng.randrange(1, 7)
    arr = [rng.choice([1.0, 2.0, 0.5, 3.0, 1.5, 4.0, 10.0, 0.25, 37.0, 100.0]) for _ in range(n)]
    off = rng.choice([0.0, 0.0, 0.5, 1.0, -1.0, 7.0, -3.5, 2.25, 100.0, -1000.25, rng.random() * 20 - 10])
    return "%d %s %d" % (len(arr), " ".join(str(FB(a)) for a in arr), FB(off))


def make_lines(rng, n):
    lines = []
    for i in range(n):
        if i % 20 == 3:
            # the domain of the exact theorems (DashExact.v): integer vertices, axis-aligned segments, integer dashes and offset
            ops, x, y = [], rng.randrange(-50, 200), rng.randrange(-50, 200)
            for _s in range(rng.choice([1, 1, 2])):
                ops.append("M " + scene.fpt(float(x), float(y)))
                x0, y0 = x, y
                for _k in range(rng.randrange(1, 6)):
                    if rng.random() < 0.5:
                        x += rng.choice([-1, 1]) * rng.randrange(0, 40)
                    else:
                        y += rng.choice([-1, 1]) * rng.randrange(0, 40)
                    ops.append("L " + scene.fpt(float(x), float(y)))
                if rng.random() < 0.4:
                    if x != x0 and y != y0:
                        ops.append("L " + scene.fpt(float(x0), float(y)))
                    ops.append("Z"); x, y = x0, y0
                x, y = x + rng.randrange(-20, 20), y + rng.randrange(-20, 20)
            arr = [float(rng.randrange(1, 30)) for _ in range(rng.randrange(1, 6))]
            off = float(rng.choice([0, 0, 3, -7, 50, -120, 1000]))
            lines.append("pdash %d %d %s %d %s" % (i, len(arr), " ".join(str(FB(a)) for a in arr), FB(off), scene.path_tokens(ops, 0)))
            continue
        if i % 2 == 0:
            lines.append("pdash %d %s %s" % (i, pos_dash_tokens(rng), scene.path_tokens(simple_subpath(rng), 0)))
        else:
            lines.append("pdash %d %s %s" % (i, pc.dash_tokens(rng), scene.path_tokens(pc.polyline_ops(rng), 0)))
    return lines


def r32(x):
    import struct
    try:
        return struct.unpack("<f", struct.pack("<f", x))[0]
    except OverflowError:
        return float("inf") if x > 0 else float("-inf")


def total32(arr):
    t = 0.0
    for a in arr:
        t = r32(t + a)
    return r32(t * 2) if len(arr) % 2 else t


def on_intervals(arr, off, L):
    T = total32(arr)          # the period as the code computes it (f32)
    if len(arr) % 2:
        arr = arr + arr
    phase = math.fmod(off, T)
    if phase < 0:
        phase += T
    out = []
    # walk the pattern from s = -phase
    s = -phase
    i = 0
    guard = 0
    while s < L and guard < 200000:
        e = s + arr[i % len(arr)]
        if i % 2 == 0 and e > 0 and e > s:
            out.append((max(s, 0.0), min(e, L)))
        s = e
        i += 1
        guard += 1
    # merge touching
    merged = []
    for a, b in out:
        if b <= a:
            continue
        if merged and a <= merged[-1][1] + 1e-9:
            merged[-1] = (merged[-1][0], max(merged[-1][1], b))
        else:
            merged.append((a, b))
    return merged


def arc_param(p, pts, cum):
    best = None
    for i in range(len(pts) - 1):
        a, b = pts[i], pts[i + 1]
        if geom.seg_dist(p, a, b) < 2e-3:
            s = cum[i] + math.hypot(p[0] - a[0], p[1] - a[1])
            if best is None:
                best = [s]
            else:
                best.append(s)
    return best


def oracle(aug, impl):
    t = aug.split()
    n = int(t[2])
    arr = [bits_f32(int(x)) for x in t[3:3 + n]]
    off = bits_f32(int(t[3 + n]))
    w, ops, _ = _path.parse_path(t, 4 + n)
    it = impl.split()
    if it[1] != "ok":
        return None     # judged by the comparison with the model (out-of-domain inputs panic in both)
    _, fops, _ = _path.parse_path(it, 2)
    total = sum(arr) * (2 if n % 2 else 1) if all(math.isfinite(a) for a in arr) else float("nan")
    if not (total > 0) and not any(a != a for a in arr) and math.isfinite(total):
        return "a dash array whose total is not positive must give an empty path" if fops else None
    if not (all(a > 0 and math.isfinite(a) for a in arr) and math.isfinite(off) and abs(off) <= 1e4):
        return "skip"
    # simple single subpath only
    kinds = [o[0] for o in ops]
    if kinds.count("M") != 1 or kinds[0] != "M" or any(k not in "MLZ" for k in kinds):
        return "skip"
    closed = kinds[-1] == "Z"
    if "Z" in kinds[:-1]:
        return "skip"
    pts = [(o[1], o[2]) for o in ops if o[0] in "ML"]
    if len(pts) < 2 or len(set(pts)) != len(pts):
        return "skip"
    xs = [p[0] for p in pts]
    if not closed and xs != sorted(xs):
        return "skip"
    if not closed and len(set(xs)) != len(xs):
        return "skip"
    if closed:
        if len(pts) < 3:
            return "skip"
        sg = set()
        for i in range(len(pts)):
            a, b, c = pts[i], pts[(i + 1) % len(pts)], pts[(i + 2) % len(pts)]
            cr = (b[0] - a[0]) * (c[1] - b[1]) - (b[1] - a[1]) * (c[0] - b[0])
            if abs(cr) < 1e-9:
                return "skip"
            sg.add(cr > 0)
        if len(sg) != 1:
            return "skip"
    loop = pts + [pts[0]] if closed else pts
    # the arc-length parametrisation must be unambiguous: no two non-adjacent parts of the path come close,
    # adjacent segments do not fold back onto each other
    nseg = len(loop) - 1
    for i in range(nseg):
        a, b = loop[i], loop[i + 1]
        la = math.hypot(b[0] - a[0], b[1] - a[1])
        if la < 0.25:
            return "skip"
        for j in range(nseg):
            if j == i or j == i + 1 or j == i - 1 or (closed and {i, j} == {0, nseg - 1}):
                continue
            if geom.seg_dist(loop[j], a, b) < 0.5 or geom.seg_dist(loop[j + 1], a, b) < 0.5:
                return "skip"
        if i + 1 < nseg or closed:
            c = loop[(i + 2) % len(loop)] if i + 1 < nseg else loop[1]
            lb = math.hypot(c[0] - b[0], c[1] - b[1])
            if lb > 0:
                sn = abs((b[0] - a[0]) * (c[1] - b[1]) - (b[1] - a[1]) * (c[0] - b[0])) / (la * lb)
                dt = ((b[0] - a[0]) * (c[0] - b[0]) + (b[1] - a[1]) * (c[1] - b[1]))
                if sn < 0.1 and dt < 0:
                    return "skip"
    cum = [0.0]
    for i in range(len(loop) - 1):
        cum.append(cum[-1] + math.hypot(loop[i + 1][0] - loop[i][0], loop[i + 1][1] - loop[i][1]))
    L = cum[-1]
    if L / min(arr) > 20000 or not math.isfinite(total32(arr)):
        return "skip"
    exp = on_intervals(arr, off, L)
    # pieces of the output
    pieces, cur, has_close = [], None, False
    for o in fops:
        if o[0] == "M":
            if cur and len(cur) > 1:
                pieces.append((cur, False))
            cur = [(o[1], o[2])]
        elif o[0] == "L":
            if cur is None:
                return "output starts with LineTo"
            cur.append((o[1], o[2]))
        elif o[0] == "Z":
            if cur and len(cur) >= 1:
                pieces.append((cur, True))
            cur = None
    if cur and len(cur) > 1:
        pieces.append((cur, False))
    got = []
    tol = 2e-3 * (1 + L)
    for pp, zc in pieces:
        if zc:
            if not closed or len(exp) != 1 or exp[0][0] > tol or exp[0][1] < L - tol:
                return "a Close was emitted although the pattern is not 'on' over the whole closed subpath"
            got.append((0.0, L))
            continue
        n_before = len(got)
        ss = []
        for p in pp:
            cand = arc_param(p, loop, cum)
            if not cand:
                return "an emitted vertex does not lie on the input path"
            ss.append(cand)
        # choose a non-decreasing assignment, allowing one wrap for closed paths.  A point next to the vertex where a
        # closed subpath starts and ends has two arc-length readings (near 0 and near L): try every reading of the
        # piece's first point and keep the assignment that covers the shortest stretch of the path
        def assign(first):
            seq, last, wrapped = [], None, False
            for idx, cand in enumerate(ss):
                opts = [first] if idx == 0 else sorted(cand)
                pick = None
                for c in opts:
                    if last is None or c >= last - tol:
                        pick = c
                        break
                if pick is None:
                    if closed and not wrapped:
                        wrapped = True
                        pick = opts[0]
                        seq.append("wrap")
                    else:
                        return None
                seq.append(pick)
                last = pick
            return seq
        def covered(seq):
            if "wrap" in seq:
                k = seq.index("wrap")
                return (L - seq[0] if k > 0 else 0.0) + (seq[-1] if k + 1 < len(seq) else 0.0)
            a, b = seq[0], seq[-1]
            return (L - a) + b if (closed and b < a) else b - a
        cands = [sq for sq in (assign(f0) for f0 in sorted(ss[0])) if sq is not None]
        if not cands:
            return "the vertices of a dash piece are not in path order"
        seq = min(cands, key=covered)
        if "wrap" in seq:
            k = seq.index("wrap")
            a1 = [v for v in seq[:k]]
            a2 = [v for v in seq[k + 1:]]
            if a1:
                got.append((a1[0], L))
            if a2:
                got.append((0.0, a2[-1]))
        else:
            a, b = seq[0], seq[-1]
            if closed and b < a:
                got.append((a, L)); got.append((0.0, b))
            else:
                got.append((a, b))
        # interior input vertices must be kept
        for v, sv in zip(loop[1:-1], cum[1:-1]):
            for a, b in got[n_before:]:
                if a + tol < sv < b - tol and v not in pp:
                    return "a dash piece passes an input vertex without keeping it (the join is lost)"
    # a dash is ONE piece: two different pieces must not meet at a point where the pattern is on on both sides (the join
    # there would be lost and caps would appear)
    for i1, (pp1, z1) in enumerate(pieces):
        for i2, (pp2, z2) in enumerate(pieces):
            if i1 != i2 and not z1 and not z2 and pp1[-1] == pp2[0]:
                for sj in arc_param(pp1[-1], loop, cum) or []:
                    if tol < sj < L - tol and any(ea + tol < sj < eb - tol for ea, eb in exp):
                        return "a dash was emitted as two pieces meeting at arc length %.3f although the pattern is on on both sides of it" % sj
    got = sorted((a, b) for a, b in got if b - a > 1e-6)
    merged = []
    for a, b in got:
        if merged and a <= merged[-1][1] + tol:
            merged[-1] = (merged[-1][0], max(merged[-1][1], b))
        else:
            merged.append((a, b))
    expm = []
    for a, b in exp:
        if b - a <= 1e-6:
            continue
        if expm and a <= expm[-1][1] + tol:
            expm[-1] = (expm[-1][0], max(expm[-1][1], b))
        else:
            expm.append((a, b))
    # slivers at the ends of the subpath are within the tolerance of the parametrisation
    merged = [(a, b) for a, b in merged if b - a > 2 * tol]
    expm = [(a, b) for a, b in expm if b - a > 2 * tol]
    # dashes or gaps shorter than the tolerance cannot be judged
    if any(0 < v < 4 * tol for v in arr):
        return "skip"
    if len(merged) != len(expm) or any(abs(a - c) > tol or abs(b - d) > tol for (a, b), (c, d) in zip(merged, expm)):
        return "dash pieces cover arc-length intervals %s but the pattern's 'on' intervals are %s" % (
            [(round(a, 3), round(b, 3)) for a, b in merged[:6]], [(round(a, 3), round(b, 3)) for a, b in expm[:6]])
    # on a closed subpath a piece reaching the end must be joined to the piece at the start
    def slot_margin(sv):
        a2 = arr + arr if len(arr) % 2 else arr
        T = total32(arr)
        x = math.fmod(sv + math.fmod(off, T) + T, T)
        acc = 0.0
        for i2, d in enumerate(a2):
            if x < acc + d:
                return (i2 % 2 == 0), min(x - acc, acc + d - x)
            acc += d
        return False, 0.0
    on_end, m_end = slot_margin(L)
    on_start, m_start = slot_margin(0.0)
    if closed and len(expm) >= 2 and on_end and on_start and m_end > tol and m_start > tol:
        starts = [pp[0] for pp, zc in pieces]
        if any(math.hypot(p[0] - pts[0][0], p[1] - pts[0][1]) < 1e-6 for p in starts):
            return "on a closed subpath the dash reaching the end is not joined to the dash at the start"
    return None


def nontrivial(aug, impl):
    return impl.count(" M ") >= 2


ASSUME = ["the arc-length oracle applies to single simple subpaths with positive finite dash arrays; other inputs are decided by "
          "the bit-exact comparison with the model", "sqrt/division in f32 as IEEE (Flocq)"]


def stroke_scenes(ctx):
    """DrawTarget::stroke with a dash array must paint the outline of the path dashed by dash_path: the crate's stroke
    is compared with the model's fill of stroke_to_path(dash_path(flatten(path))) (outline computed by the harness with
    the crate's own exported functions).  Closed polygons whose first dash ends on the implicit closing segment, dashes
    longer than the whole subpath, offsets of both signs."""
    rng = ctx.rng
    n = 120 if ctx.tier == "quick" else 2500
    lines, specs = [], []
    for i in range(n):
        W, H = rng.randrange(8, 15), rng.randrange(8, 15)
        big = (i % 3 == 2)
        if big:
            # wide dashes on a larger surface: caps and the joins of dashes that bend round a vertex are several pixels big
            W, H = rng.randrange(30, 41), rng.randrange(30, 41)
        k = rng.randrange(3, 6)
        pts = [(rng.randrange(4, 4 * W - 4) / 4.0, rng.randrange(4, 4 * H - 4) / 4.0) for _ in range(k)]
        if big:
            pts = [(rng.randrange(7, W - 7) + 0.5, rng.randrange(7, H - 7) + 0.5) for _ in range(rng.randrange(2, 5))]
        if rng.random() < 0.4:
            x0, y0, x1, y1 = 1.5, 1.5, W - 1.5, H - 1.5
            if big:
                x0, y0, x1, y1 = 7.5, 7.5, W - 7.5, H - 7.5
            pts = [(x0, y0), (x1, y0), (x1, y1), (x0, y1)]
        closed = rng.random() < 0.7
        ops = ["M " + scene.fpt(*pts[0])] + ["L " + scene.fpt(*p) for p in pts[1:]] + (["Z"] if closed else [])
        seg = lambda a, b: math.hypot(a[0] - b[0], a[1] - b[1])
        explicit = sum(seg(pts[j], pts[j + 1]) for j in range(len(pts) - 1))
        per = explicit + (seg(pts[-1], pts[0]) if closed else 0.0)
        c = rng.random()
        if c < 0.5:
            first = explicit + rng.random() * max(per - explicit, 0.5)       # ends on the closing segment
        elif c < 0.7:
            first = per * rng.choice([1.0, 1.5, 3.0])
        else:
            first = rng.choice([1.0, 2.5, 4.0])
        arr = [first, rng.choice([1.0, 3.0, 1000.0])] if rng.random() < 0.8 else [first]
        off = rng.choice([0.0, 0.0, 1.0, -1.0, first / 2, -first / 2, 20.0])
        if big:
            arr = [float(rng.randrange(8, 15)), float(rng.randrange(11, 16))]
            off = rng.choice([0.0, 3.0, -4.0, 7.0])
        style = "STYLE %d %s %s %d %d %s %d" % (FB(rng.choice([5.0, 6.0, 7.0]) if big else rng.choice([1.0, 2.0, 1.5])), rng.choice(["butt", "round", "square"]),
                                                rng.choice(["miter", "round", "bevel"]), FB(4.0), len(arr),
                                                " ".join(str(FB(a)) for a in arr), FB(off))
        if i % 6 == 5:
            # a dashed chevron (or capped line) lying wholly beyond one side of the surface, farther out than half the width,
            # whose miter tip or cap reaches in: long dashes, so that the vertex lies inside one
            W = H = 24
            wdt = rng.choice([4.0, 6.0, 8.0, 10.0])
            side = rng.randrange(4)
            d_ = wdt / 2 + rng.choice([0.3, 0.6, 1.0, 2.0])
            along = rng.randrange(3, W - 2) + rng.choice([0.0, 0.5])
            vx, vy, ux, uy = [(-d_, along, 1.0, 0.0), (W + d_, along, -1.0, 0.0), (along, -d_, 0.0, 1.0), (along, H + d_, 0.0, -1.0)][side]
            L_, h_ = 20.0, rng.choice([2.0, 3.0, 5.0, 8.0])
            qz = lambda v: round(v * 4) / 4.0
            if rng.random() < 0.7:
                pts = [(vx - ux * L_ - uy * h_, vy - uy * L_ + ux * h_), (vx, vy), (vx - ux * L_ + uy * h_, vy - uy * L_ - ux * h_)]
            else:
                pts = [(vx - ux * L_, vy - uy * L_), (vx, vy)]
            ops = ["M " + scene.fpt(qz(pts[0][0]), qz(pts[0][1]))] + ["L " + scene.fpt(qz(a), qz(b)) for a, b in pts[1:]]
            arr = rng.choice([[1000.0], [30.0, 2.0], [15.0, 1.0, 60.0, 1.0]])
            off = rng.choice([0.0, 2.0, -3.0])
            style = "STYLE %d %s %s %d %d %s %d" % (FB(wdt), rng.choice(["square", "round", "butt"]), rng.choice(["miter", "miter", "round"]), FB(rng.choice([10.0, 20.0])), len(arr),
                                                    " ".join(str(FB(a)) for a in arr), FB(off))
        lines.append("scene %d %d %d I %s ; stroke %s %s SRC solid ffffffff 3 %d 1" % (
            700000 + i, W, H, " ".join(["00000000"] * (W * H)), scene.path_tokens(ops, 0), style, FB(1.0)))
        st_ = style.split()
        specs.append((W, H, ops, arr, off, bits_f32(int(st_[1])), st_[2], st_[3], bits_f32(int(st_[4]))))
    try:
        sr = sc.run(lines)
    except sc.ImplDied as e:
        ctx.violation("impl-died", str(e), "the implementation aborted or hung on a dashed stroke")
        return
    bad = [(i, sr.first_diff(i)) for i in range(len(lines))]
    bad = [(i, k) for i, k in bad if k is not None]
    ctx.cov["dashed_stroke_scenes"] = len(lines)
    if not bad:
        dash_region_oracle(ctx, sr, lines, specs)
        if ctx.violations:
            return
    if bad:
        i, k = min(bad, key=lambda t: len(sr.aug[t[0]]))
        ctx.violation("stroke-%s" % lines[i].split()[1], sr.aug[i],
                      "DrawTarget::stroke with this dash array does not paint the outline of the path dashed along its arc length "
                      "(pixels differ from the fill of stroke_to_path(dash_path(flatten(path)))): %d of %d scenes differ\n# impl:  %s\n# model: %s"
                      % (len(bad), len(lines), sr.impl[i][k].raw[:200] if k < len(sr.impl[i]) else "-",
                         sr.model[i][k].raw[:200] if k < len(sr.model[i]) else "-"))


def dash_region_oracle(ctx, sr, lines, specs):
    """every dash is a stroked piece of its own, with its own caps: the pixels DrawTarget::stroke paints are compared (f64,
    half-pixel + half-diagonal margin) with the union of the stroke regions of the pieces dash_path returns for the same
    path, array and offset (dash_path itself is what the rest of this check decides)"""
    dl = ["pdash %d %d %s %d %s" % (i, len(sp[3]), " ".join(str(FB(a)) for a in sp[3]), FB(sp[4]), scene.path_tokens(sp[2], 0))
          for i, sp in enumerate(specs)]
    try:
        aug, impl, model = pc.run(dl)
    except RuntimeError:
        return
    checked = 0
    for i, sp in enumerate(specs):
        W, H, ops, arr, off, width, cap, join, ml = sp
        t = impl[i].split()
        if len(t) < 5 or t[1] != "ok" or not (width > 0):
            continue
        res = sr.impl[i][0] if sr.impl[i] else None
        if res is None or res.panic:
            continue
        px = res.parse()["surface"]
        try:
            _, fops, _ = _path.parse_path(t, 2)
        except Exception:
            continue
        pieces, cur = [], []
        for o in fops:
            if o[0] == "M":
                if len(cur) > 1:
                    pieces.append(cur)
                cur = [o]
            else:
                cur.append(o)
        if len(cur) > 1:
            pieces.append(cur)
        regs = []
        for pc_ in pieces:
            pts = [(o[1], o[2]) for o in pc_ if o[0] in ("M", "L")]
            ln = sum(math.hypot(pts[k + 1][0] - pts[k][0], pts[k + 1][1] - pts[k][1]) for k in range(len(pts) - 1))
            if ln < 0.05:
                regs = None      # a dash too short to have a direction: caps are not determined by the statement
                break
            regs.append(geom.stroke_region(pc_, width, cap, join, ml))
        if not regs:
            continue
        margin = 1.25
        for y in range(H):
            for x in range(W):
                if (x + y + i) % 2:
                    continue
                u = (x + 0.5, y + 0.5)
                a = int(px[y * W + x], 16) >> 24
                d = min(r.dist(u) for r in regs)
                checked += 1
                if d > margin and a != 0:
                    ctx.violation("dashpx-%s" % lines[i].split()[1], sr.aug[i],
                                  "pixel (%d,%d) is %.2f px outside every dash (each dash stroked with its own caps and joins) but has alpha %d" % (x, y, d, a))
                    return
                if a != 255 and any(r.dist(u) == 0 and r.deep_inside(u, margin) for r in regs):
                    ctx.violation("dashpx-%s" % lines[i].split()[1], sr.aug[i],
                                  "pixel (%d,%d) is inside a dash (stroked with its own caps and joins) by more than the margin but has alpha %d" % (x, y, a))
                    return
    ctx.cov["dash_pixels_checked_against_region"] = checked


def concat_check(ctx):
    """"restarted per subpath": the dashes of a path with several subpaths are the dashes of each subpath on its own, one
    after the other - evaluated on the crate's own dash_path (whole path vs its subpaths, op lists compared exactly)."""
    rng = ctx.rng
    n = 400 if ctx.tier == "quick" else 8000
    lines, groups = [], []
    for i in range(n):
        subs = []
        for _ in range(rng.choice([2, 2, 3])):
            ops = simple_subpath(rng) if rng.random() < 0.6 else pc.polyline_ops(rng, nsub=1)
            ops = [o for o in ops]
            if not ops or not ops[0].startswith("M "):
                ops = ["M " + scene.fpt(1.0, 1.0)] + ops
            # keep exactly one subpath per group: cut at a second MoveTo, drop ops after a Close
            cut = next((j for j in range(1, len(ops)) if ops[j].startswith("M ")), len(ops))
            ops = ops[:cut]
            if "Z" in ops:
                ops = ops[:ops.index("Z") + 1]
            subs.append(ops)
        dash = pos_dash_tokens(rng) if rng.random() < 0.7 else "2 %d %d %d" % (FB(rng.choice([1000.0, 300.0, 50.0])), FB(10.0), FB(rng.choice([0.0, 5.0, -3.0])))
        base = len(lines)
        lines.append("pdash %d %s %s" % (600000 + base, dash, scene.path_tokens([o for sp in subs for o in sp], 0)))
        for sp in subs:
            lines.append("pdash %d %s %s" % (600000 + len(lines), dash, scene.path_tokens(sp, 0)))
        groups.append((base, len(subs)))
    try:
        aug, impl, model = pc.run(lines)
    except RuntimeError as e:
        ctx.violation("impl-died", str(e), "the implementation aborted on a multi-subpath dash case")
        return
    def ops_of(line):
        t = line.split()
        if len(t) < 5 or t[1] != "ok":
            return None
        return t[5:]
    bad = None
    for base, k in groups:
        whole = ops_of(impl[base])
        parts = [ops_of(impl[base + 1 + j]) for j in range(k)]
        if whole is None or any(p is None for p in parts):
            continue
        cat = [x for p in parts for x in p]
        if whole != cat and (bad is None or len(lines[base]) < len(lines[bad])):
            bad = base
    ctx.cov["multi_subpath_dash_cases"] = len(groups)
    if bad is not None:
        ctx.violation("concat-%s" % lines[bad].split()[1], lines[bad],
                      "the dashes of this path are not the dashes of its subpaths one after the other (the pattern must restart "
                      "at every subpath and a subpath's dashes must not depend on the previous subpath)\n# whole: %s" % impl[bad][:300])


def run(ctx):
    if core.prepare(ctx):
        stroke_scenes(ctx)
        concat_check(ctx)
    return _path.run_property(ctx, make_lines, RULE, oracle, ASSUME, nontrivial, 4000, 80000,
                              "PathOps.dash_path vs raqote::dash::dash_path")


def replay(ctx, path):
    return _path.replay(ctx, path, oracle, "PathOps.dash_path vs raqote::dash::dash_path")
