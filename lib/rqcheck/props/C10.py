"""C10 - a drawing call's effect is independent of earlier calls."""
from .. import scenecheck as sc, scene, gen
from . import _scene

CFG = dict(nops=10, maxdim=10, init="random", p_clip=0.2, p_layer=0.0, p_structured=0.2, sources=["solid", "image"],
           curves=0.3, p_zero_dim=0.0)
RULE = ("random histories of 1..10 calls on one DrawTarget incl. no-op draws (empty, off-surface, zero-area shapes, singular "
        "transforms, zero width), off-surface clip pushes, paths starting with LineTo/Close and shapes of very different "
        "vertical extent; after every call (a) the hook verif_rasterizer_idle must report an idle rasteriser, (b) the call is "
        "replayed by the implementation on a fresh DrawTarget holding the same pixels with the same transform and clip stack "
        "re-established, and must give identical pixels; (c) pixels equal the model, whose state is idle by theorem")


def post(ctx, sr):
    worst = None
    for i in range(len(sr.cases)):
        bad = sc.busy_violations(sr, i)
        if bad and (worst is None or len(sr.aug[i]) < len(sr.aug[worst[0]])):
            worst = (i,) + bad[0]
    if worst:
        i, k, what = worst
        ctx.violation("busy-%s" % sr.cases[i].split()[1], sc.truncate_case(sr.aug[i], k), what + " (op %d)" % k)
        return
    # replay of each drawing op on a fresh target (implementation against itself)
    fresh, origin = [], []
    for i in range(len(sr.cases)):
        hdr, ops = scene.split_ops(sr.aug[i])
        W, H = hdr.split()[2:4]
        state_ops = []      # transform + clip stack to re-establish, in order
        for k, op in enumerate(ops):
            if k >= len(sr.impl[i]) or sr.impl[i][k].panic:
                break
            kind = sc.op_kind(op)
            if kind in sc.DRAW_KINDS and kind != "poplayer" and k > 0:
                prev = sr.impl[i][k - 1].parse()
                if prev["layer"] is None:
                    fresh.append("scene %d %s %s I %s ; %s" % (len(fresh), W, H, " ".join(prev["surface"]),
                                                              " ; ".join(state_ops + [op])))
                    origin.append((i, k))
            if kind == "xf":
                state_ops.append(op)     # kept in order: a clip path depends on the transform at push time
            elif kind in ("cliprect", "clippath"):
                state_ops.append(op)
            elif kind == "popclip":
                for j in range(len(state_ops) - 1, -1, -1):
                    if state_ops[j].startswith("clip"):
                        del state_ops[j]
                        break
            elif kind == "layer":
                break
    ctx.cov["fresh_replays"] = len(fresh)
    if not fresh:
        return
    from .. import build
    out, died = build.run_sharded(build.RQV, fresh)
    for (i, k), line, res in zip(origin, fresh, out):
        parts = scene.split_results(res)[1]
        if not parts:
            continue
        last = sc.OpRes(parts[-1])
        if last.panic:
            continue
        if last.parse()["surface"] != sr.impl[i][k].parse()["surface"]:
            ctx.violation("history-%s" % sr.cases[i].split()[1],
                          sc.truncate_case(sr.aug[i], k) + "\n# replay of the last call on a fresh target with the same visible state:\n" + line,
                          "the call gives different pixels on a fresh DrawTarget with the same pixels, transform and clip stack (op %d)" % k)
            return


def concrete(sr, i, k, c, op):
    if c.get("idlediff"):
        return "rasteriser state left over after the call"
    return None


ASSUME = ["fresh replays are done when no layer is open (layer contents below the top are not observable)"]


def run(ctx):
    return _scene.run_property(ctx, CFG, 1200, 15000, RULE, concrete, ASSUME, post=post,
                               nontrivial=lambda sr, i: len(sr.impl[i]) >= 3)


def replay(ctx, path):
    return _scene.replay(ctx, path, concrete, post)
