"""C10 - a drawing call's effect is independent of earlier calls."""
from .. import scenecheck as sc, scene, gen
from ..gen import f32bits as FB
from . import _scene

CFG = dict(nops=10, maxdim=10, init="random", p_clip=0.2, p_layer=0.06, p_structured=0.25, sources=["solid", "image"],
           curves=0.3, p_zero_dim=0.0, p_clipstack=0.3)
RULE = ("random histories of 1..10 calls on one DrawTarget incl. no-op draws (empty, off-surface, zero-area shapes, singular "
        "transforms, zero width), off-surface clip pushes, paths starting with LineTo/Close and shapes of very different "
        "vertical extent; after every call (a) the hook verif_rasterizer_idle must report an idle rasteriser, (b) the call is "
        "replayed by the implementation on a fresh DrawTarget holding the same pixels with the same transform and clip stack "
        "re-established, and must give identical pixels (pop_layer included: the layer is pushed again on the fresh target and "
        "given the same content; runs of layers with equal opacity and blend mode under different clips are part of the "
        "stream); (c) pixels equal the model, whose state is idle by theorem")


def post(ctx, sr):
    worst = None
    for i in range(len(sr.cases)):
        bad = sc.busy_violations(sr, i)
        if bad and (worst is None or len(sr.aug[i]) < len(sr.aug[worst[0]])):
            worst = (i,) + bad[0]
    if worst:
        i, k, what = worst
        ctx.violation("busy-%s" % sr.cases[i].split()[1], sc.truncate_case(sr.aug[i], k), what + " (op %d)" % k)
        return
    # replay of each drawing op on a fresh target (implementation against itself)
    fresh, origin = [], []
    for i in range(len(sr.cases)):
        hdr, ops = scene.split_ops(sr.aug[i])
        W, H = hdr.split()[2:4]
        state_ops = []      # transform + clip stack to re-establish, in order
        depth, lay = 0, None
        for k, op in enumerate(ops):
            if k >= len(sr.impl[i]) or sr.impl[i][k].panic:
                break
            kind = sc.op_kind(op)
            if kind in sc.DRAW_KINDS and kind != "poplayer" and k > 0 and depth == 0:
                prev = sr.impl[i][k - 1].parse()
                if prev["layer"] is None:
                    fresh.append("scene %d %s %s I %s ; %s" % (len(fresh), W, H, " ".join(prev["surface"]),
                                                              " ; ".join(state_ops + [op])))
                    origin.append((i, k))
            if kind == "poplayer":
                # pop_layer is a drawing call too: its pixels are a function of the surface, the layer's content, opacity
                # and blend mode, and the clip.  Replayed on a fresh target: same surface, same transform / clip stack,
                # the layer pushed again and given the same content (an image drawn with Src replaces pixels exactly)
                if depth == 1 and lay is not None and lay["clean"] and k > 0 and not any(o.startswith("clippath") for o in lay["state"]):
                    prev = sr.impl[i][k - 1].parse()
                    if prev["layer"] is not None:
                        (lx0, ly0, lx1, ly1), lpx = prev["layer"]
                        fill = []
                        if lx1 > lx0 and ly1 > ly0 and len(lpx) == (lx1 - lx0) * (ly1 - ly0):
                            last_xf = [o for o in state_ops if o.startswith("xf")][-1:]
                            fill = ["xf " + scene.xf_tokens(scene.IDENT),
                                    "drawimage %d %d %d %d %s 1 %d 1" % (FB(float(lx0)), FB(float(ly0)), lx1 - lx0, ly1 - ly0, " ".join(lpx), FB(1.0))] + \
                                   (last_xf or [])
                        fresh.append("scene %d %s %s I %s ; %s" % (len(fresh), W, H, " ".join(prev["surface"]),
                                                                  " ; ".join(lay["state"] + [lay["op"]] + fill + ["poplayer"])))
                        origin.append((i, k))
                depth = max(0, depth - 1)
                lay = None
            elif kind == "layer":
                cur_ = sr.impl[i][k].parse()
                if cur_["layer"] is not None and any(v != "00000000" for v in cur_["layer"][1]):
                    ctx.violation("history-%s" % sr.cases[i].split()[1], sc.truncate_case(sr.aug[i], k),
                                  "a layer just pushed is not empty: it holds pixels left by earlier calls (on a fresh DrawTarget with the same visible state it is transparent) (op %d)" % k)
                    return
                depth += 1
                lay = dict(state=list(state_ops), op=op, clean=True) if depth == 1 else None
            elif kind in ("xf", "cliprect", "clippath", "popclip", "surf") and lay is not None:
                lay["clean"] = False      # the visible state changed while the layer was open: not replayed
            if kind == "xf":
                state_ops.append(op)     # kept in order: a clip path depends on the transform at push time
            elif kind in ("cliprect", "clippath"):
                state_ops.append(op)
            elif kind == "popclip":
                for j in range(len(state_ops) - 1, -1, -1):
                    if state_ops[j].startswith("clip"):
                        del state_ops[j]
                        break
    ctx.cov["fresh_replays"] = len(fresh)
    if not fresh:
        return
    from .. import build
    out, died = build.run_sharded(build.RQV, fresh)
    for (i, k), line, res in zip(origin, fresh, out):
        parts = scene.split_results(res)[1]
        if not parts:
            continue
        last = sc.OpRes(parts[-1])
        if last.panic:
            continue
        if last.parse()["surface"] != sr.impl[i][k].parse()["surface"]:
            ctx.violation("history-%s" % sr.cases[i].split()[1],
                          sc.truncate_case(sr.aug[i], k) + "\n# replay of the last call on a fresh target with the same visible state:\n" + line,
                          "the call gives different pixels on a fresh DrawTarget with the same pixels, transform and clip stack (op %d)" % k)
            return


def concrete(sr, i, k, c, op):
    if c.get("idlediff"):
        return "rasteriser state left over after the call"
    return None


ASSUME = ["fresh replays of drawing calls are done when no layer is open (layer contents below the top are not observable); "
          "pop_layer is replayed for un-nested layers during which transform and clip stack did not change, under rectangular clips "
          "(under a clip path the layer's content cannot be re-created exactly through the public API)"]


def after_state_calls(ctx, base):
    """Histories in which a call that touches internal state for its own purposes (clear under a clip, pop_layer, a
    drawing call that draws nothing, a clip push and pop) is followed by drawing calls whose pixels depend on the
    transform and the source's placement: whatever those calls saved, set and restored must be back as it was"""
    rng = ctx.rng
    n = 250 if ctx.tier == "quick" else 3000
    out = []
    for j in range(n):
        W, H = rng.randrange(3, 10), rng.randrange(3, 10)
        px = [gen.premul_pixel(rng) for _ in range(W * H)]
        t = scene.rand_xf(rng, general=0.5)
        while t == scene.IDENT or t[0] * t[3] - t[1] * t[2] == 0:
            t = scene.rand_xf(rng, general=0.5)
        ops = ["xf " + scene.xf_tokens(t)]
        if j % 5 == 4:
            # a drawing call that draws nothing, in either antialias mode and with either winding rule, directly followed by a
            # clip path push, then draws under that clip: nothing of the no-op may leak into the mask
            ops = [] if rng.random() < 0.5 else ops
            far = "P %d 4 M %s L %s L %s Z" % (rng.randrange(2), scene.fpt(W + 9.0, 1.0), scene.fpt(W + 14.0, 2.0), scene.fpt(W + 10.0, 6.0))
            noop = rng.choice(["fill P %d 0  solid ffffffff 3 %d %d" % (rng.randrange(2), FB(1.0), rng.randrange(2)),
                               "fill %s solid ffffffff 3 %d %d" % (far, FB(1.0), rng.randrange(2)),
                               "stroke %s STYLE %d butt miter %d 0 %d SRC solid ffffffff 3 %d %d" % (scene.rand_path(rng, W, H, 0.0), FB(0.0), FB(4.0), FB(0.0), FB(1.0), rng.randrange(2))])
            ops.append(noop)
            ops.append("clippath " + scene.rand_path(rng, W, H, 0.2))
            for _ in range(rng.randrange(1, 3)):
                ops.append(scene.draw_op(rng, W, H, dict(sources=["solid", "image"], draw_kinds=["fill", "fillrect", "fillrect"])))
            out.append("scene %d %d %d I %s ; %s" % (base + j, W, H, " ".join(map(gen.hexpx, px)), " ; ".join(ops)))
            continue
        clip = rng.random() < 0.6
        if clip:
            ops.append("cliprect %d %d %d %d" % scene.rand_rect(rng, W, H))
        for _ in range(rng.randrange(1, 3)):
            c = rng.random()
            if c < 0.35:
                ops.append("clear " + gen.hexpx(gen.premul_pixel(rng)))
            elif c < 0.6:
                ops += ["layer %d %d" % (gen.alpha_bits(rng), 3), scene.draw_op(rng, W, H, dict(sources=["solid", "image"])), "poplayer"]
            elif c < 0.8:
                # a fill that draws nothing (empty path, or a path wholly beside the surface), antialiased or not
                pth = rng.choice(["P 0 0 ", "P 0 4 M %s L %s L %s Z" % (scene.fpt(W + 9.0, 1.0), scene.fpt(W + 14.0, 2.0), scene.fpt(W + 10.0, 6.0))])
                if pth != "P 0 0 " and t != scene.IDENT:
                    ops.append("xf " + scene.xf_tokens(scene.IDENT))
                ops.append("fill %s solid ffffffff 3 %d %d" % (pth, FB(1.0), rng.randrange(2)))
                if pth != "P 0 0 " and t != scene.IDENT:
                    ops.append("xf " + scene.xf_tokens(t))
            elif c < 0.9:
                ops += ["clippath " + scene.rand_path(rng, W, H, 0.2), "popclip"]
            else:
                # a clip path that keeps no edge: empty, or wholly beside / below the surface; either winding rule
                far = rng.choice([(float(W + 5), 0.0), (0.0, float(H + 7)), (-50.0, 0.0)])
                pth = rng.choice(["P %d 0 " % rng.randrange(2),
                                  "P %d 4 M %s L %s L %s Z" % (rng.randrange(2), scene.fpt(far[0] + 1, far[1] + 1), scene.fpt(far[0] + 4, far[1] + 1), scene.fpt(far[0] + 2, far[1] + 5))])
                if t != scene.IDENT:
                    ops.append("xf " + scene.xf_tokens(scene.IDENT))
                ops += ["clippath " + pth, "popclip", "xf " + scene.xf_tokens(t)]
        if clip and rng.random() < 0.5:
            ops.append("popclip")
        if rng.random() < 0.35:
            ops.append("clippath " + scene.rand_path(rng, W, H, 0.2))     # stays in force for the draws below
        for _ in range(rng.randrange(1, 3)):
            ops.append(scene.draw_op(rng, W, H, dict(sources=["image", "linearc", "image", "radialc", "solid"], draw_kinds=["fill", "fill", "fillrect", "fillrect", "stroke"], curves=0.1)))
        out.append("scene %d %d %d I %s ; %s" % (base + j, W, H, " ".join(map(gen.hexpx, px)), " ; ".join(ops)))
    return out


def run(ctx):
    return _scene.run_property(ctx, CFG, 2000, 15000, RULE, concrete, ASSUME, post=post, extra_lines=after_state_calls,
                               nontrivial=lambda sr, i: len(sr.impl[i]) >= 3)


def replay(ctx, path):
    return _scene.replay(ctx, path, concrete, post)
