"""C11 - the current transform acts on geometry and sources as one user space."""
from .. import core, scene, scenecheck as sc, build, gen
from ..gen import f32bits as FB
from . import _scene

CFG = dict(nops=7, maxdim=10, init="random", p_clip=0.12, p_layer=0.1, p_xf=0.35, p_structured=0.3)
RULE = ("random scenes with frequent set_transform (integer and quarter translations, powers of two, quarter turns, shears, "
        "general rotations / non-uniform scales, singular matrices) before every kind of drawing call and source; all pixels "
        "and get_transform() are compared with the model after every op. Evaluated on the implementation itself: (a) "
        "fill(path) under T is bit-identical to fill(Path::transform(T)) under the identity (solid sources); (b) a singular T "
        "makes fill/fill_rect/stroke/mask/draw_image draw nothing; (c) push_clip_rect, mask() placement and copy/blend_surface "
        "give the same pixels whatever T is; (d) pop_layer and clear leave get_transform() unchanged and give the same pixels whatever T is; non-trivial = drawing op "
        "under a non-identity transform that changed pixels")

IDT = scene.xf_tokens(scene.IDENT)


def metamorphic(ctx):
    rng = ctx.rng
    n = 480 if ctx.tier == "quick" else 6400
    A, B, kinds = [], [], []
    for i in range(n):
        W, H = rng.randrange(2, 11), rng.randrange(2, 11)
        init = " ".join(gen.hexpx(gen.premul_pixel(rng)) for _ in range(W * H))
        xf = scene.rand_xf(rng, general=0.6)
        xt = scene.xf_tokens(xf)
        hdr = "%d %d I %s" % (W, H, init)
        k = i % 8
        if k == 7:
            # an image source is fixed in user space: drawing under a translation T (quarter-pixel amounts, exact in f32)
            # samples the image at transform(T^-1 p); the same picture must come from drawing the translated rectangle
            # under the identity with the source transform T^-1 . transform (all entries dyadic: no rounding anywhere)
            a_, b_ = rng.randrange(-12, 13) / 4.0, rng.randrange(-12, 13) / 4.0
            sc_ = rng.choice([1.0, 1.0, 2.0, 0.5])
            tx_, ty_ = rng.randrange(-8, 9) / 4.0, rng.randrange(-8, 9) / 4.0
            img = scene.image_tokens(rng)
            ext, flt = rng.choice(["pad", "repeat"]), rng.choice(["nearest", "nearest", "bilinear"])
            rx, ry, rw, rh = float(rng.randrange(-2, W)), float(rng.randrange(-2, H)), float(rng.randrange(1, W + 2)), float(rng.randrange(1, H + 2))
            o = scene.rand_opts(rng, modes=[1, 3, 3])
            srcA = "image %s %s %s %s" % (img, ext, flt, scene.xf_tokens((sc_, 0.0, 0.0, sc_, tx_, ty_)))
            srcB = "image %s %s %s %s" % (img, ext, flt, scene.xf_tokens((sc_, 0.0, 0.0, sc_, tx_ - a_ * sc_, ty_ - b_ * sc_)))
            A.append("scene %d %s ; xf %s ; fillrect %d %d %d %d %s %s" % (len(A), hdr, scene.xf_tokens((1.0, 0.0, 0.0, 1.0, a_, b_)), FB(rx), FB(ry), FB(rw), FB(rh), srcA, o))
            B.append("scene %d %s ; fillrect %d %d %d %d %s %s" % (len(B), hdr, FB(rx + a_), FB(ry + b_), FB(rw), FB(rh), srcB, o))
            kinds.append("an image source drawn under a translation == the translated drawing with the source transform composed")
        elif k == 6:
            # pop_layer composites the layer, and clear() fills, in device space: the transform in force when they are
            # called (any T, singular ones included) has no influence on the pixels
            d = scene.draw_op(rng, W, H, dict(draw_kinds=["fill", "fillrect", "mask", "stroke"]))
            if rng.random() < 0.6:
                pre = ("cliprect %d %d %d %d ; " % scene.rand_rect(rng, W, H)) if rng.random() < 0.5 else ""
                lay = "layer %d %d" % (gen.alpha_bits(rng), 3 if rng.random() < 0.6 else rng.randrange(gen.N_MODES))
                t2 = scene.xf_tokens(scene.rand_xf(rng, general=0.6)) if rng.random() < 0.5 else xt
                A.append("scene %d %s ; %s%s ; %s ; xf %s ; poplayer" % (len(A), hdr, pre, lay, d, t2))
                B.append("scene %d %s ; %s%s ; %s ; xf %s ; poplayer" % (len(B), hdr, pre, lay, d, IDT))
                kinds.append("pop_layer composites in device space whatever the current transform is")
            else:
                r = "%d %d %d %d" % scene.rand_rect(rng, W, H)
                c_ = gen.hexpx(gen.premul_pixel(rng))
                A.append("scene %d %s ; xf %s ; cliprect %s ; clear %s" % (len(A), hdr, xt, r, c_))
                B.append("scene %d %s ; cliprect %s ; clear %s" % (len(B), hdr, r, c_))
                kinds.append("clear() fills the clip in device space whatever the current transform is")
        elif k == 5:
            # fill_rect is the fill of the rectangle path in the same user space: under every transform that is not the
            # identity the two calls must paint identical pixels (shears with a unit diagonal, integer and fractional
            # translations, scales, rotations)
            tt = rng.choice([(1.0, 0.0, rng.choice([0.5, -0.25, 1.0]), 1.0, float(rng.randrange(-2, 3)), float(rng.randrange(-2, 3))),
                             (1.0, rng.choice([0.5, -0.5]), 0.0, 1.0, float(rng.randrange(-2, 3)), 0.0),
                             (1.0, 0.0, 0.0, 1.0, float(rng.randrange(-3, 4)), float(rng.randrange(-3, 4))),
                             (1.0, 0.0, 0.0, 1.0, 0.5, 0.25), xf, xf])
            rx, ry, rw, rh = float(rng.randrange(-2, W)), float(rng.randrange(-2, H)), float(rng.randrange(1, W + 2)), float(rng.randrange(1, H + 2))
            s_ = "solid " + gen.hexpx(gen.premul_pixel(rng)); o = scene.rand_opts(rng)
            rect = ["M " + scene.fpt(rx, ry), "L " + scene.fpt(rx + rw, ry), "L " + scene.fpt(rx + rw, ry + rh), "L " + scene.fpt(rx, ry + rh), "Z"]
            A.append("scene %d %s ; xf %s ; fillrect %d %d %d %d %s %s" % (len(A), hdr, scene.xf_tokens(tt), FB(rx), FB(ry), FB(rw), FB(rh), s_, o))
            B.append("scene %d %s ; xf %s ; fill %s %s %s" % (len(B), hdr, scene.xf_tokens(tt), scene.path_tokens(rect, 0), s_, o))
            kinds.append("fill_rect under a transform == fill of the rectangle path under the same transform")
        elif k == 4:
            # a non-invertible transform: every drawing call draws nothing, whatever the source
            sx = rng.choice([(0.0,) * 6, (1.0, 1.0, 1.0, 1.0, 0.0, 0.0), (1.0, 2.0, 2.0, 4.0, 1.0, 1.0), (1.0, 0.0, 0.0, 0.0, 3.0, 3.0),
                             (0.0, 0.0, 0.0, 2.0, 1.0, 0.0), (0.5, 0.25, 1.0, 0.5, 2.0, 2.0)])
            d = scene.draw_op(rng, W, H, dict(sources=["solid", "solid", "image", "linearc"],
                                              draw_kinds=["mask", "mask", "fill", "fillrect", "stroke", "drawimage"]))
            A.append("scene %d %s ; xf %s ; %s" % (len(A), hdr, scene.xf_tokens(sx), d))
            B.append("scene %d %s ; xf %s" % (len(B), hdr, scene.xf_tokens(sx)))
            kinds.append("a non-invertible transform makes every drawing call draw nothing")
        elif k == 0:
            p = scene.rand_path(rng, W, H, curves=0.5)       # curved paths too: any device-space tolerance must not depend on T
            if rng.random() < 0.4:
                # zoom factors and offsets as people type them: the f32 products land within an ulp of the quarter-pixel grid,
                # where Path::transform and the fill's own mapping must still agree bit for bit
                sx = rng.choice([1.1, 0.3, 2.5, 1.25, 0.7, 1.5, 0.1, 3.3, 0.9, 1.2, 0.6])
                sy = sx if rng.random() < 0.6 else rng.choice([1.1, 0.3, 2.5, 0.7, -1.1])
                xf = (sx, 0.0, 0.0, sy, rng.randrange(-30, 60) / 10.0, rng.randrange(-30, 60) / 10.0)
                xt = scene.xf_tokens(xf)
                p = scene.path_tokens(scene.grid_polygon(rng, W * 3, H * 3), rng.randrange(2))
            s = "solid " + gen.hexpx(gen.premul_pixel(rng)); o = scene.rand_opts(rng)
            A.append("scene %d %s ; xf %s ; fill %s %s %s" % (len(A), hdr, xt, p, s, o))
            B.append("scene %d %s ; xf %s ; tfill %s %s %s" % (len(B), hdr, xt, p, s, o))
            kinds.append("fill under T == fill of Path::transform(T) under the identity")
        elif k == 1:
            r = "%d %d %d %d" % scene.rand_rect(rng, W, H)
            d = scene.draw_op(rng, W, H, dict(sources=["solid"], draw_kinds=["fill", "fillrect"]))
            A.append("scene %d %s ; xf %s ; cliprect %s ; xf %s ; %s" % (len(A), hdr, xt, r, IDT, d))
            B.append("scene %d %s ; cliprect %s ; xf %s ; %s" % (len(B), hdr, r, IDT, d))
            kinds.append("push_clip_rect is in device space")
        elif k == 2:
            det = xf[0] * xf[3] - xf[1] * xf[2]
            if det == 0:
                xt = scene.xf_tokens((2.0, 0.0, 0.0, 0.5, 3.0, -1.0))
            d = scene.draw_op(rng, W, H, dict(sources=["solid"], draw_kinds=["mask"]))
            A.append("scene %d %s ; xf %s ; %s" % (len(A), hdr, xt, d))
            B.append("scene %d %s ; %s" % (len(B), hdr, d))
            kinds.append("mask() is placed in device space")
        else:
            sw, sh = rng.randrange(1, 6), rng.randrange(1, 6)
            simg = "%d %d %s" % (sw, sh, " ".join(gen.hexpx(gen.premul_pixel(rng)) for _ in range(sw * sh)))
            kk = rng.choice(["copy 0", "blend %d" % rng.randrange(13), "alpha %d" % gen.alpha_bits(rng)])
            op = "surf %s %s %d %d %d %d %d %d" % (kk, simg, rng.randrange(-1, 3), rng.randrange(-1, 3), rng.randrange(1, 7), rng.randrange(1, 7),
                                                    rng.randrange(-2, W), rng.randrange(-2, H))
            A.append("scene %d %s ; xf %s ; cliprect 1 1 2 2 ; %s" % (len(A), hdr, xt, op))
            B.append("scene %d %s ; %s" % (len(B), hdr, op))
            kinds.append("copy_surface / blend_surface ignore transform and clip")
    # many more of the cheap "typed numbers" pairs: fill under a decimal zoom vs fill of Path::transform of it (about one
    # polygon in fifty has a vertex within an ulp of a quarter-pixel boundary)
    for _ in range(500 if ctx.tier == "quick" else 5000):
        W, H = rng.randrange(4, 13), rng.randrange(4, 13)
        hdr = "%d %d I %s" % (W, H, " ".join(["00000000"] * (W * H)))
        sx = rng.choice([1.1, 0.3, 2.5, 1.25, 0.7, 1.5, 0.1, 3.3, 0.9, 1.2, 0.6])
        sy = sx if rng.random() < 0.6 else rng.choice([1.1, 0.3, 2.5, 0.7, -1.1])
        xt = scene.xf_tokens((sx, 0.0, 0.0, sy, rng.randrange(-30, 60) / 10.0, rng.randrange(-30, 60) / 10.0))
        p = scene.path_tokens(scene.grid_polygon(rng, W * 2, H * 2), rng.randrange(2))
        o = "solid ffffffff 3 %d %d" % (FB(1.0), rng.randrange(2))
        A.append("scene %d %s ; xf %s ; fill %s %s" % (len(A), hdr, xt, p, o))
        B.append("scene %d %s ; xf %s ; tfill %s %s" % (len(B), hdr, xt, p, o))
        kinds.append("fill under T == fill of Path::transform(T) under the identity")
    # the pen is transformed with the path: an axis-aligned segment with butt caps stroked under a non-uniform scale (powers
    # of two, so that everything is exact) is the rectangle whose width across the segment is scaled by the OTHER axis' factor
    for _ in range(60 if ctx.tier == "quick" else 600):
        W, H = rng.randrange(8, 25), rng.randrange(8, 25)
        hdr = "%d %d I %s" % (W, H, " ".join(["00000000"] * (W * H)))
        sx, sy = rng.choice([(4.0, 1.0), (1.0, 4.0), (2.0, 0.5), (0.5, 2.0), (2.0, 1.0), (1.0, 2.0), (4.0, 0.5)])
        wd = rng.choice([1.0, 2.0, 4.0])
        if rng.random() < 0.5:      # vertical segment x = c, y0..y1 (user space)
            c_, y0_, y1_ = rng.randrange(1, max(2, int(W / sx))) * 1.0, 1.0, max(2.0, float(int((H - 1) / sy)))
            pth = ["M " + scene.fpt(c_, y0_), "L " + scene.fpt(c_, y1_)]
            dx0, dx1, dy0, dy1 = (c_ - wd / 2) * sx, (c_ + wd / 2) * sx, y0_ * sy, y1_ * sy
        else:                       # horizontal segment
            c_, x0_, x1_ = rng.randrange(1, max(2, int(H / sy))) * 1.0, 1.0, max(2.0, float(int((W - 1) / sx)))
            pth = ["M " + scene.fpt(x0_, c_), "L " + scene.fpt(x1_, c_)]
            dx0, dx1, dy0, dy1 = x0_ * sx, x1_ * sx, (c_ - wd / 2) * sy, (c_ + wd / 2) * sy
        rect = ["M " + scene.fpt(dx0, dy0), "L " + scene.fpt(dx1, dy0), "L " + scene.fpt(dx1, dy1), "L " + scene.fpt(dx0, dy1), "Z"]
        sty = "STYLE %d butt %s %d 0 %d" % (FB(wd), rng.choice(["miter", "bevel", "round"]), FB(4.0), FB(0.0))
        o = "solid ffffffff 3 %d 1" % FB(1.0)
        A.append("scene %d %s ; xf %s ; stroke %s %s SRC %s" % (len(A), hdr, scene.xf_tokens((sx, 0.0, 0.0, sy, 0.0, 0.0)), scene.path_tokens(pth, 0), sty, o))
        B.append("scene %d %s ; fill %s %s" % (len(B), hdr, scene.path_tokens(rect, 0), o))
        kinds.append("a segment stroked under a non-uniform scale is the image of its user-space rectangle")
    for kind_, a_, b_ in core.corpus_pairs("C11"):      # pairs kept from earlier failures run too
        ta, tb = a_.split(" ", 2), b_.split(" ", 2)
        A.append("%s %d %s" % (ta[0], len(A), ta[2])); B.append("%s %d %s" % (tb[0], len(B), tb[2])); kinds.append(kind_)
    ra, _ = build.run_sharded(build.RQV, sc.augment(A))
    rb, _ = build.run_sharded(build.RQV, sc.augment(B))
    ctx.cov["metamorphic_pairs"] = len(A)
    for a, b, la, lb, kind in zip(ra, rb, A, B, kinds):
        pa, pb = scene.split_results(a)[1], scene.split_results(b)[1]
        if not pa or not pb or "panic" in (pa[-1], pb[-1]) or "hang" in (pa[-1], pb[-1]):
            if ("panic" in pa) != ("panic" in pb):
                ctx.violation("meta-%s" % la.split()[1], la + "\n" + lb, kind + ": one of the two equivalent scenes panicked")
                return
            continue
        if len(pa) != len(scene.split_ops(la)[1]) or len(pb) != len(scene.split_ops(lb)[1]):
            continue
        sa, sb = sc.OpRes(pa[-1]).parse()["surface"], sc.OpRes(pb[-1]).parse()["surface"]
        if sa != sb:
            ctx.violation("meta-%s" % la.split()[1], la + "\n" + lb, "the two scenes must give identical pixels: " + kind)
            return


def stroke_scale(ctx):
    """A stroke is the image under T of the user-space stroke: stroking a curved path of width w under a uniform
    down-scale s must paint what stroking the pre-scaled path with width s*w paints under the identity (the flattening
    tolerance is a device-space quantity).  Compared on the crate itself, away from the outline: where the reference
    has a 3x3 block of fully painted (or untouched) pixels the scaled scene must agree."""
    from .C08 import scale_ops
    rng = ctx.rng
    n = 40 if ctx.tier == "quick" else 600
    W = H = 40
    A, B = [], []
    zero = " ".join(["00000000"] * (W * H))
    for i in range(n):
        def P():
            return (rng.randrange(16, 4 * W - 16) / 4.0, rng.randrange(16, 4 * H - 16) / 4.0)
        ops = ["M " + scene.fpt(*P())]
        for _ in range(rng.randrange(1, 4)):
            c = rng.random()
            if c < 0.5:
                ops.append("Q %s %s" % (scene.fpt(*P()), scene.fpt(*P())))
            elif c < 0.85:
                ops.append("C %s %s %s K 0" % (scene.fpt(*P()), scene.fpt(*P()), scene.fpt(*P())))
            else:
                ops.append("L " + scene.fpt(*P()))
        if rng.random() < 0.3:
            ops.append("Z")
        s = rng.choice([0.125, 0.0625, 0.03125, 0.015625, 0.25, 1.0 / 1024, 1.0 / 2048, 1.0 / 4096])
        wd = rng.choice([2.0, 3.0, 4.0, 6.0])
        cap, join = rng.choice(["butt", "round", "square"]), rng.choice(["miter", "round", "bevel"])
        sty = lambda w_: "STYLE %d %s %s %d 0 %d" % (FB(w_), cap, join, FB(4.0), FB(0.0))
        A.append("scene %d %d %d I %s ; xf %s ; stroke %s %s SRC solid ffffffff 3 %d 1" % (
            i, W, H, zero, scene.xf_tokens((s, 0.0, 0.0, s, 0.0, 0.0)), scene.path_tokens(scale_ops(ops, 1.0 / s), 0), sty(wd / s), FB(1.0)))
        B.append("scene %d %d %d I %s ; xf %s ; stroke %s %s SRC solid ffffffff 3 %d 1" % (
            i, W, H, zero, IDT, scene.path_tokens(ops, 0), sty(wd), FB(1.0)))
    ra, _ = build.run_sharded(build.RQV, sc.augment(A))
    rb, _ = build.run_sharded(build.RQV, sc.augment(B))
    ctx.cov["scaled_stroke_pairs"] = len(A)
    for a, b, la, lb in zip(ra, rb, A, B):
        pa, pb = scene.split_results(a)[1], scene.split_results(b)[1]
        if len(pa) < 2 or len(pb) < 2 or pa[-1] in ("panic", "hang") or pb[-1] in ("panic", "hang"):
            continue
        sa = [int(x, 16) >> 24 for x in sc.OpRes(pa[-1]).parse()["surface"]]
        sb = [int(x, 16) >> 24 for x in sc.OpRes(pb[-1]).parse()["surface"]]
        for y in range(1, H - 1):
            for x in range(1, W - 1):
                nb = [sb[(y + dy) * W + x + dx] for dy in (-1, 0, 1) for dx in (-1, 0, 1)]
                v = sa[y * W + x]
                if (min(nb) == 255 and v != 255) or (max(nb) == 0 and v != 0):
                    ctx.violation("sstroke-%s" % la.split()[1], la + "\n" + lb,
                                  "a stroke under a uniform down-scale is not the image of the user-space stroke: pixel (%d,%d) has alpha %d "
                                  "while the same stroke drawn pre-scaled under the identity %s it and its 8 neighbours" % (
                                      x, y, v, "fully paints" if min(nb) == 255 else "leaves untouched"))
                    return


def singular(xf_bits):
    from ..gen import bits_f32
    m = [bits_f32(int(v)) for v in xf_bits]
    return m[0] * m[3] - m[1] * m[2] == 0


def post(ctx, sr):
    metamorphic(ctx)
    if not ctx.violations:
        stroke_scale(ctx)
    if ctx.violations:
        return
    for i in range(len(sr.cases)):
        hdr, ops = scene.split_ops(sr.aug[i])
        prev = None
        for k, op in enumerate(ops):
            if k >= len(sr.impl[i]) or sr.impl[i][k].panic:
                break
            cur = sr.impl[i][k].parse()
            kind = sc.op_kind(op)
            if prev is not None and kind in ("poplayer", "clear") and prev["ctm"] != cur["ctm"]:
                ctx.violation("ctm-%s" % sr.cases[i].split()[1], sc.truncate_case(sr.aug[i], k), "%s changed the current transform" % kind)
                return
            if prev is not None and prev["ctm"] and singular(prev["ctm"]) and kind in ("fill", "fillrect", "stroke", "mask", "drawimage", "drawimagesize"):
                if sc.dest_pixels(prev) != sc.dest_pixels(cur) or prev["surface"] != cur["surface"]:
                    ctx.violation("singular-%s" % sr.cases[i].split()[1], sc.truncate_case(sr.aug[i], k),
                                  "a drawing call under a non-invertible transform changed pixels")
                    return
            prev = cur


def concrete(sr, i, k, c, op):
    t = op.split()
    if c.get("formula", 0) > 0 and any(g in t for g in ("image", "linear", "radial", "linearc", "radialc", "twocirclec", "sweepc")) \
            or (c.get("formula", 0) > 0 and t[0].startswith("drawimage")):
        hdr, ops = scene.split_ops(sr.aug[i])
        if any(o.startswith("xf") for o in ops[:k]):
            return "under the current transform the source is not evaluated at T^-1 of the pixel centre (model = statement)"
    return None


def nontrivial(sr, i):
    hdr, ops = scene.split_ops(sr.aug[i])
    return any(o.startswith("xf") and not o.endswith(IDT) for o in ops) and _scene.default_nontrivial(sr, i)


ASSUME = ["user-space placement of sources is the model's (C12/C13): compared bit-exactly through the Flocq front end for every "
          "transform, no tolerance", "stroke under T: the stroker's outline is taken from the crate and checked by C04"]


def sources_under_ctm(ctx, base):
    """Image and gradient sources with the simplest placements of their own (identity, integer or quarter translations)
    drawn under every kind of current transform: whatever short cut the shader selection takes for 'simple' source
    transforms must be decided on the combination with the current transform"""
    rng = ctx.rng
    n = 250 if ctx.tier == "quick" else 3000
    out = []
    for j in range(n):
        W, H = rng.randrange(3, 10), rng.randrange(2, 8)
        px = [gen.premul_pixel(rng) for _ in range(W * H)]
        t = scene.rand_xf(rng, general=0.3)
        while t == scene.IDENT or t[0] * t[3] - t[1] * t[2] == 0:
            t = scene.rand_xf(rng, general=0.3)
        ops = ["xf " + scene.xf_tokens(t)]
        for _ in range(rng.randrange(1, 3)):
            own = rng.choice([scene.IDENT, (1.0, 0.0, 0.0, 1.0, float(rng.randrange(-3, 4)), float(rng.randrange(-3, 4))),
                              (1.0, 0.0, 0.0, 1.0, rng.randrange(-8, 9) / 4.0, rng.randrange(-8, 9) / 4.0)])
            if rng.random() < 0.7:
                src = "image %s %s %s %s" % (scene.image_tokens(rng), rng.choice(["pad", "repeat"]), rng.choice(["nearest", "nearest", "bilinear"]), scene.xf_tokens(own))
            else:
                src = scene.rand_source(rng, W, H, ["linearc", "radialc", "linear"])
            x, y = float(rng.randrange(-3, W + 1)), float(rng.randrange(-3, H + 1))
            ops.append("fillrect %d %d %d %d %s %s" % (FB(x), FB(y), FB(float(rng.randrange(1, W + 4))), FB(float(rng.randrange(1, H + 4))), src,
                                                     scene.rand_opts(rng, modes=[1, 1, 3, 3, 12])))
        out.append("scene %d %d %d I %s ; %s" % (base + j, W, H, " ".join(map(gen.hexpx, px)), " ; ".join(ops)))
    return out


def run(ctx):
    return _scene.run_property(ctx, CFG, 2500, 20000, RULE, concrete, ASSUME, post=post, nontrivial=nontrivial, extra_lines=sources_under_ctm)


def replay(ctx, path):
    return _scene.replay(ctx, path, concrete, post)
