"""C12 - gradient sources are positioned and coloured as constructed."""
import math
from .. import core, scene, scenecheck as sc, build, gen
from ..gen import f32bits as FB, bits_f32
from . import _scene

GRAD = ["linear", "radial", "linearc", "linearc", "radialc", "radialc", "twocirclec", "sweepc"]
CFG = dict(nops=4, maxdim=10, init="random", p_clip=0.05, p_layer=0.05, p_xf=0.3, p_structured=0.1, sources=GRAD,
           draw_kinds=["fillrect", "fillrect", "fill", "mask"], modes=[1, 1, 1, 3, 3])
RULE = ("linear, radial, two-circle and sweep gradients built with the Source constructors (and raw transforms), 1..5 stops at "
        "increasing positions (sometimes outside [0,1]), three spread modes, alpha in [0,1], under exact-family and general "
        "transforms, drawn mostly with Src over whole surfaces: every pixel is compared with the model (look-up table, spread, "
        "fixed-point matrix, f32 evaluation emulated bit-exactly). The statement is evaluated in f64 on probe gradients "
        "(alpha 1, sweep start angle 0): the observed channels must lie within 4/255 of the piecewise-linear premultiplied "
        "colour for some t within 3/255 (+|t|/255 for two-circle and sweep) of the pixel's exact parameter; "
        "non-trivial = gradient that produced at least 3 different colours")
KNOWN_ALPHA = ("gradient source with global alpha < 1: colour channels are scaled by alpha twice (sw-composite build_lut scales "
               "the unpremultiplied stop by alpha before premultiplying) - dependency defect")
KNOWN_SWEEP = ("sweep gradient with start_angle != 0: sw-composite computes t = r*t_scale - t_bias with t_bias = -t0 instead of "
               "(r - t0)*t_scale - dependency defect")


def spread_map(t, spread):
    if spread == "pad":
        return max(0.0, min(1.0, t))
    if spread == "repeat":
        return t - math.floor(t)
    k = t - 2 * math.floor(t / 2)
    return 2 - k if k > 1 else k


def grad_color(stops, t, spread):
    """piecewise-linear unpremultiplied colour at t, then premultiplied (floats, 0..255)"""
    if spread == "pad":
        t = max(0.0, min(1.0, t))
    elif spread == "repeat":
        t = t - math.floor(t)
    else:
        k = t - 2 * math.floor(t / 2)
        t = 2 - k if k > 1 else k
    pos = [max(0.0, min(1.0, p)) for p, c in stops]
    if t <= pos[0]:
        c = stops[0][1]
    elif t >= pos[-1]:
        c = stops[-1][1]
    else:
        c = stops[-1][1]
        for i in range(len(stops) - 1):
            if pos[i] <= t <= pos[i + 1]:
                if pos[i + 1] == pos[i]:
                    c = stops[i + 1][1]
                else:
                    f = (t - pos[i]) / (pos[i + 1] - pos[i])
                    c = tuple(stops[i][1][j] + (stops[i + 1][1][j] - stops[i][1][j]) * f for j in range(4))
                break
    a = c[0]
    return (a, c[1] * a / 255.0, c[2] * a / 255.0, c[3] * a / 255.0)


def probe(ctx):
    rng = ctx.rng
    n = 160 if ctx.tier == "quick" else 3000
    W = H = 16
    scenes, meta = [], []
    for i in range(n):
        ns = rng.randrange(1, 5)
        pos = sorted(rng.choice([0.0, 1.0, 0.5, 0.25, 0.75, rng.random()]) for _ in range(ns))
        cols = [(255 if rng.random() < 0.6 else rng.randrange(40, 256), rng.randrange(256), rng.randrange(256), rng.randrange(256)) for _ in range(ns)]
        stops = list(zip(pos, cols))
        stoks = "%d %s" % (ns, " ".join("%d %08x" % (FB(p), (c[0] << 24) | (c[1] << 16) | (c[2] << 8) | c[3]) for p, c in stops))
        sp = rng.choice(["pad", "reflect", "repeat"])
        kind = rng.choice(["linearc", "radialc", "twocirclec", "sweepc"])
        xf = scene.rand_xf(rng, general=0.5)
        if xf[0] * xf[3] - xf[1] * xf[2] == 0 or abs(xf[0] * xf[3] - xf[1] * xf[2]) < 0.05:
            xf = scene.IDENT
        def P():
            return (float(rng.randrange(-2, W + 3)), float(rng.randrange(-2, H + 3)))
        if kind == "linearc":
            a, b = P(), P()
            if math.hypot(b[0] - a[0], b[1] - a[1]) < 1:
                b = (a[0] + 5.0, a[1] + 3.0)
            src = "linearc %s %s %s %s" % (stoks, sp, scene.fpt(*a), scene.fpt(*b)); geo = (a, b)
        elif kind == "radialc":
            c, r = P(), float(rng.randrange(1, 14))
            src = "radialc %s %s %s %d" % (stoks, sp, scene.fpt(*c), FB(r)); geo = (c, r)
        elif kind == "twocirclec":
            c1 = P(); r1 = float(rng.randrange(0, 4)); r2 = r1 + float(rng.randrange(2, 9))
            c2 = (c1[0] + rng.choice([0.0, 0.5, 1.0, -1.0]), c1[1] + rng.choice([0.0, 0.5, -0.5]))
            if math.hypot(c2[0] - c1[0], c2[1] - c1[1]) + r1 >= r2:
                c2 = c1
            src = "twocirclec %s %s %s %d %s %d" % (stoks, sp, scene.fpt(*c1), FB(r1), scene.fpt(*c2), FB(r2)); geo = (c1, r1, c2, r2)
        else:
            c = P(); a1 = rng.choice([360.0, 180.0, 90.0, 270.0])
            src = "sweepc %s %s %s %d %d" % (stoks, sp, scene.fpt(*c), FB(0.0), FB(a1)); geo = (c, 0.0, a1)
        scenes.append("scene %d %d %d I %s ; xf %s ; fillrect %d %d %d %d %s 1 %d 1" % (
            i, W, H, " ".join(["00000000"] * (W * H)), scene.xf_tokens(xf), FB(-300.0), FB(-300.0), FB(900.0), FB(900.0), src, FB(1.0)))
        meta.append((kind, stops, sp, geo, xf))
    impl, died = build.run_sharded(build.RQV, sc.augment(scenes))
    checked = 0
    for line, sline, m in zip(impl, scenes, meta):
        parts = scene.split_results(line)[1]
        if len(parts) < 2 or parts[-1] in ("panic", "hang"):
            continue
        px = sc.OpRes(parts[-1]).parse()["surface"]
        kind, stops, sp, geo, xf = m
        det = xf[0] * xf[3] - xf[1] * xf[2]
        inv = (xf[3] / det, -xf[1] / det, -xf[2] / det, xf[0] / det,
               (xf[2] * xf[5] - xf[3] * xf[4]) / det, (xf[4] * xf[1] - xf[0] * xf[5]) / det)
        for y in range(0, H, 1):
            for x in range(W):
                if (x + y) % 3:
                    continue
                ux = (x + 0.5) * inv[0] + (y + 0.5) * inv[2] + inv[4]
                uy = (x + 0.5) * inv[1] + (y + 0.5) * inv[3] + inv[5]
                widen = 0.0
                if kind == "linearc":
                    (a, b) = geo
                    dx, dy = b[0] - a[0], b[1] - a[1]
                    t = ((ux - a[0]) * dx + (uy - a[1]) * dy) / (dx * dx + dy * dy)
                elif kind == "radialc":
                    (c, r) = geo
                    t = math.hypot(ux - c[0], uy - c[1]) / r
                elif kind == "twocirclec":
                    (c1, r1, c2, r2) = geo
                    cdx, cdy, dr = c2[0] - c1[0], c2[1] - c1[1], r2 - r1
                    pdx, pdy = ux - c1[0], uy - c1[1]
                    A = cdx * cdx + cdy * cdy - dr * dr
                    B = pdx * cdx + pdy * cdy + r1 * dr
                    C = pdx * pdx + pdy * pdy - r1 * r1
                    if abs(A) < 1e-9:
                        continue
                    disc = B * B - A * C
                    if disc < 0:
                        continue
                    t = max((B + math.sqrt(disc)) / A, (B - math.sqrt(disc)) / A)
                    widen = abs(t) / 255.0
                else:
                    (c, a0, a1) = geo
                    ang = math.degrees(math.atan2(uy - c[1], ux - c[0])) % 360.0
                    if math.hypot(ux - c[0], uy - c[1]) < 1.0:
                        continue
                    # the angle is measured on screen; a transform with a linear part maps it (skip those)
                    if xf[:4] != (1.0, 0.0, 0.0, 1.0):
                        continue
                    t = (ang - a0) / (a1 - a0)
                    widen = abs(t) / 255.0
                    if sp == "pad" and (t > 0.99 or t < 0.01):
                        continue
                if not math.isfinite(t) or abs(t) > 50:
                    continue
                p = int(px[y * W + x], 16)
                obs = (p >> 24, (p >> 16) & 255, (p >> 8) & 255, p & 255)
                dt = 3.0 / 255 + widen + 1e-4
                ok = False
                lo = [255.0] * 4; hi = [0.0] * 4
                for s_ in range(0, 41):
                    tt = t - dt + 2 * dt * s_ / 40.0
                    cols = [grad_color(stops, tt, sp)]
                    # at a stop position shared by several stops the colour jumps: both sides are acceptable
                    tm = spread_map(tt, sp)
                    for ps, cs in stops:
                        if abs(max(0.0, min(1.0, ps)) - tm) < 2e-3:
                            cols.append((cs[0], cs[1] * cs[0] / 255.0, cs[2] * cs[0] / 255.0, cs[3] * cs[0] / 255.0))
                    for col in cols:
                        for j in range(4):
                            lo[j] = min(lo[j], col[j]); hi[j] = max(hi[j], col[j])
                checked += 1
                if any(obs[j] < lo[j] - 4.0 - 1e-6 or obs[j] > hi[j] + 4.0 + 1e-6 for j in range(4)):
                    ctx.violation("grad-%s" % sline.split()[1], sline,
                                  "%s gradient: pixel (%d,%d) has ARGB %s but at t=%.4f (+-%.4f) the colour ranges over %s..%s"
                                  % (kind, x, y, obs, t, dt, [round(v, 1) for v in lo], [round(v, 1) for v in hi]))
                    return
    ctx.cov["gradient_pixels_checked_against_statement"] = checked


def post(ctx, sr):
    probe(ctx)
    # the two dependency defects are exercised by the model comparison (the model reproduces them); report them as known
    for i in range(len(sr.cases)):
        hdr, ops = scene.split_ops(sr.aug[i])
        for op in ops:
            t = op.split()
            if any(g in t for g in ("linear", "radial", "linearc", "radialc", "twocirclec", "sweepc")):
                if "STROKED" in t:
                    t = t[:t.index("STROKED")]
                try:
                    alpha = bits_f32(int(t[-2]))
                except Exception:
                    continue
                if alpha < 0.995:
                    ctx.known(KNOWN_ALPHA)
                if "sweepc" in t:
                    j = t.index("sweepc")
                    ns = int(t[j + 1])
                    a0 = bits_f32(int(t[j + 2 + 2 * ns + 1 + 2]))
                    if a0 != 0.0:
                        ctx.known(KNOWN_SWEEP)


def concrete(sr, i, k, c, op):
    if c.get("formula", 0) > 0 and any(g in op.split() for g in ("linear", "radial", "linearc", "radialc", "twocirclec", "sweepc")):
        return "a gradient-sourced pixel is not the look-up table entry the model prescribes"
    return None


def nontrivial(sr, i):
    if not sr.impl[i] or sr.impl[i][-1].panic:
        return False
    return len(set(sr.impl[i][-1].parse()["surface"])) >= 3


ASSUME = ["the f64 statement oracle uses alpha = 1 and sweep start angle 0 (see the two known findings)",
          "gradient geometry extent >= 1 px; sweep under transforms with a linear part is checked only against the model"]


def run(ctx):
    return _scene.run_property(ctx, CFG, 2500, 20000, RULE, concrete, ASSUME, post=post, nontrivial=nontrivial)


def replay(ctx, path):
    return _scene.replay(ctx, path, concrete, post)
