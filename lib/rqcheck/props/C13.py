"""C13 - image sources show the texel under the pixel centre (pad/repeat, filter, alpha)."""
from .. import scene, scenecheck as sc, gen
from ..gen import f32bits as FB
from . import _scene

CFG = dict(nops=4, maxdim=9, init="random", p_clip=0.05, p_layer=0.05, p_xf=0.35, p_structured=0.1,
           sources=["image"], draw_kinds=["fillrect", "fillrect", "fill", "drawimage", "drawimagesize", "mask"],
           modes=[1, 1, 1, 3, 3, 12, 5])
RULE = ("random images of size 1..5 x 1..5 as sources of fill_rect / fill / mask / draw_image_at / draw_image_with_size_at, both "
        "extend modes, both filters, alpha in [0,1], current transforms and source transforms from the exact families "
        "(identity, integer and fractional translations, powers of two, quarter turns, shears) and general rotations/scales, "
        "mostly with blend mode Src so that fully covered pixels show the shader's value itself; every pixel after every op is "
        "compared with the model, whose shader is the statement (nearest = texel (floor x, floor y) of the 16.16 image-space "
        "position of the pixel centre, bilinear = 4-bit weighted interpolation about (x-0.5, y-0.5), Pad clamps, Repeat "
        "wraps also for negative coordinates, result scaled by alpha); images up to 300 texels long, sampled up to 3000 texels from their origin, and near-translation transforms on surfaces 700-1030 px long. A differing pixel inside the drawn region that no "
        "coverage explains is a failing input; non-trivial = image drawn under a non-identity combined transform")


def concrete(sr, i, k, c, op):
    if c.get("formula", 0) > 0 and ("image" in op or op.startswith("drawimage")):
        return "an image-sourced pixel is not the texel/interpolation the statement prescribes"
    return None


def nontrivial(sr, i):
    return _scene.default_nontrivial(sr, i) and " xf " in " " + sr.aug[i]


ASSUME = ["image coordinates within the 16.16 range", "the float-to-fixed conversion of the matrix is emulated bit-exactly (Flocq)"]


def far_from_origin(ctx, base):
    """Image sources whose transform is within a thousandth of a pure translation (or of the identity), sampled hundreds of
    pixels from the origin on long thin surfaces: an error of 1e-3 per pixel in the matrix is a whole texel there"""
    rng = ctx.rng
    n = 40 if ctx.tier == "quick" else 400
    out = []
    for j in range(n):
        W, H = rng.choice([(1030, 1), (1, 1030), (700, 2), (2, 700)])
        iw, ih = rng.choice([(3, 1), (4, 2), (1, 3), (5, 5), (2, 2)])
        img = "%d %d %s" % (iw, ih, " ".join(gen.hexpx(0xff000000 | (((37 * k + 11) % 256) << 16) | (((91 * k) % 256) << 8) | ((53 * k + 7) % 256)) for k in range(iw * ih)))
        e = rng.choice([8e-4, -8e-4, 5e-4, 9e-4, -3e-4, 0.0])
        f = rng.choice([0.0, 0.0, 9e-4, -7e-4])
        tx, ty = float(rng.randrange(-3, 4)), float(rng.randrange(-3, 4))
        t = rng.choice([(1.0 + e, 0.0, f, 1.0, tx, ty), (1.0, f, 0.0, 1.0 + e, tx, ty), (1.0 + e, 0.0, 0.0, 1.0 + e, tx, ty)])
        src = "image %s %s %s %s" % (img, rng.choice(["repeat", "pad"]), rng.choice(["nearest", "nearest", "bilinear"]), scene.xf_tokens(t))
        a = FB(rng.choice([1.0, 1.0, 0.5]))
        op = "fillrect %d %d %d %d %s 1 %d 1" % (FB(0.0), FB(0.0), FB(float(W)), FB(float(H)), src, a)
        out.append("scene %d %d %d I %s ; %s" % (base + j, W, H, " ".join(["00000000"] * (W * H)), op))
    return out


def run(ctx):
    return _scene.run_property(ctx, CFG, 3500, 30000, RULE, concrete, ASSUME, nontrivial=nontrivial, extra_lines=far_from_origin)


def replay(ctx, path):
    return _scene.replay(ctx, path, concrete)
