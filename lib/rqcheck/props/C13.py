"""C13 - image sources show the texel under the pixel centre (pad/repeat, filter, alpha)."""
from .. import scene, scenecheck as sc, gen
from ..gen import f32bits as FB
from . import _scene

CFG = dict(nops=4, maxdim=9, init="random", p_clip=0.05, p_layer=0.05, p_xf=0.35, p_structured=0.1,
           sources=["image"], draw_kinds=["fillrect", "fillrect", "fill", "drawimage", "drawimagesize", "mask"],
           modes=[1, 1, 1, 3, 3, 12, 5])
RULE = ("random images of size 1..5 x 1..5 as sources of fill_rect / fill / mask / draw_image_at / draw_image_with_size_at, both "
        "extend modes, both filters, alpha in [0,1], current transforms and source transforms from the exact families "
        "(identity, integer and fractional translations, powers of two, quarter turns, shears) and general rotations/scales, "
        "mostly with blend mode Src so that fully covered pixels show the shader's value itself; every pixel after every op is "
        "compared with the model, whose shader is the statement (nearest = texel (floor x, floor y) of the 16.16 image-space "
        "position of the pixel centre, bilinear = 4-bit weighted interpolation about (x-0.5, y-0.5), Pad clamps, Repeat "
        "wraps also for negative coordinates, result scaled by alpha). A differing pixel inside the drawn region that no "
        "coverage explains is a failing input; non-trivial = image drawn under a non-identity combined transform")


def concrete(sr, i, k, c, op):
    if c.get("formula", 0) > 0 and ("image" in op or op.startswith("drawimage")):
        return "an image-sourced pixel is not the texel/interpolation the statement prescribes"
    return None


def nontrivial(sr, i):
    return _scene.default_nontrivial(sr, i) and " xf " in " " + sr.aug[i]


ASSUME = ["image coordinates within the 16.16 range", "the float-to-fixed conversion of the matrix is emulated bit-exactly (Flocq)"]


def run(ctx):
    return _scene.run_property(ctx, CFG, 2000, 30000, RULE, concrete, ASSUME, nontrivial=nontrivial)


def replay(ctx, path):
    return _scene.replay(ctx, path, concrete)
