"""C14 - optimised paths give the same pixels as the general path."""
from .. import core, scene, scenecheck as sc, build, gen
from ..gen import f32bits as FB
from . import _scene

CFG = dict(nops=5, maxdim=9, init="random", p_clip=0.1, p_layer=0.1, p_xf=0.05, p_structured=0.2,
           draw_kinds=["fillrect", "fillrect", "fillrect", "clear", "drawimage", "fill"])
RULE = ("integer rectangles (inside, partly and wholly off the surface, zero and negative sizes) with all 28 blend modes, every "
        "source kind, alpha in [0,1], random destination contents. On the implementation itself, pairs of scenes that must give "
        "identical pixels: fill_rect vs fill of PathBuilder::rect of the same rectangle (identity, no clip); fill_rect with vs "
        "without a surface-covering clip rectangle (also under transforms); clear with an empty clip stack vs under a covering clip (under any transform); draw_image_at at an "
        "integer position vs fill_rect with the translated image source. Plus the usual comparison of every pixel with the "
        "model; non-trivial = pair whose rectangle intersects the surface")


def pairs(ctx):
    rng = ctx.rng
    n = 1600 if ctx.tier == "quick" else 20000
    A, B, kinds = [], [], []
    for i in range(n):
        W, H = rng.randrange(1, 10), rng.randrange(1, 10)
        init = " ".join(gen.hexpx(gen.premul_pixel(rng)) for _ in range(W * H))
        hdr = "%d %d I %s" % (W, H, init)
        x, y = rng.randrange(-4, W + 2), rng.randrange(-4, H + 2)
        w, h = rng.randrange(-3, W + 5), rng.randrange(-3, H + 5)
        src = scene.rand_source(rng, W, H)
        opts = scene.rand_opts(rng, aa=1)
        if rng.random() < 0.3:
            # the combinations 'optimisations' like to special-case: opaque solid colour, SrcOver / Src, any alpha
            src = "solid ff%06x" % rng.getrandbits(24)
            opts = "%d %d 1" % (rng.choice([3, 3, 1]), gen.alpha_bits(rng))
        k = i % 5
        cover = "cliprect %d %d %d %d" % rng.choice([(0, 0, W, H), (-2, -3, W + 4, H + 1), (0, 0, W + 10, H + 10)])
        if k == 4 and W >= 3 and H >= 3:
            # the same pair inside a layer narrower than the surface (pushed under a clip rectangle that is popped again,
            # so the integer fast route is still taken): the routes must also agree when the destination is a layer
            cx0, cy0 = rng.randrange(0, W - 1), rng.randrange(0, H - 1)
            cx1, cy1 = rng.randrange(cx0 + 1, W + 1), rng.randrange(cy0 + 1, H + 1)
            pre = "cliprect %d %d %d %d ; layer %d %d ; popclip" % (cx0, cy0, cx1, cy1, gen.alpha_bits(rng), rng.choice([3, 3, 1, 12]))
            path = "P 0 5 M %s L %s L %s L %s Z" % (scene.fpt(float(x), float(y)), scene.fpt(float(x + w), float(y)),
                                                    scene.fpt(float(x + w), float(y + h)), scene.fpt(float(x), float(y + h)))
            A.append("scene %d %s ; %s ; fillrect %d %d %d %d %s %s ; poplayer" % (len(A), hdr, pre, FB(float(x)), FB(float(y)), FB(float(w)), FB(float(h)), src, opts))
            B.append("scene %d %s ; %s ; fill %s %s %s ; poplayer" % (len(B), hdr, pre, path, src, opts))
            kinds.append("fill_rect (integer fast path) vs fill of PathBuilder::rect, drawing into a layer narrower than the surface")
        elif k == 0 or k == 4:
            path = "P 0 5 M %s L %s L %s L %s Z" % (scene.fpt(float(x), float(y)), scene.fpt(float(x + w), float(y)),
                                                    scene.fpt(float(x + w), float(y + h)), scene.fpt(float(x), float(y + h)))
            A.append("scene %d %s ; fillrect %d %d %d %d %s %s" % (len(A), hdr, FB(float(x)), FB(float(y)), FB(float(w)), FB(float(h)), src, opts))
            B.append("scene %d %s ; fill %s %s %s" % (len(B), hdr, path, src, opts))
            kinds.append("fill_rect (integer fast path) vs fill of PathBuilder::rect")
        elif k == 1:
            if rng.random() < 0.3:      # the same under any current transform
                hdr = hdr + " ; xf " + scene.xf_tokens(scene.rand_xf(rng))
            A.append("scene %d %s ; fillrect %d %d %d %d %s %s" % (len(A), hdr, FB(float(x)), FB(float(y)), FB(float(w)), FB(float(h)), src, opts))
            B.append("scene %d %s ; %s ; fillrect %d %d %d %d %s %s" % (len(B), hdr, cover, FB(float(x)), FB(float(y)), FB(float(w)), FB(float(h)), src, opts))
            kinds.append("fill_rect with vs without a surface-covering clip rectangle")
        elif k == 2:
            c = gen.hexpx(gen.premul_pixel(rng))
            if rng.random() < 0.5:      # clear ignores the current transform, on both routes
                hdr = hdr + " ; xf " + scene.xf_tokens(scene.rand_xf(rng))
            if rng.random() < 0.4:      # ... and clears the innermost open layer, on both routes
                lay = " ; layer %d %d" % (gen.alpha_bits(rng), rng.choice([3, 3, 1, 12]))
                if rng.random() < 0.5:
                    lay += " ; fillrect %d %d %d %d %s %s" % (FB(0.0), FB(0.0), FB(float(W)), FB(1.0), src, opts)
                A.append("scene %d %s%s ; clear %s ; poplayer" % (len(A), hdr, lay, c))
                B.append("scene %d %s%s ; %s ; clear %s ; popclip ; poplayer" % (len(B), hdr, lay, cover, c))
                kinds.append("clear with an empty clip stack vs under a surface-covering clip, inside an open layer")
                continue
            A.append("scene %d %s ; clear %s" % (len(A), hdr, c))
            B.append("scene %d %s ; %s ; clear %s" % (len(B), hdr, cover, c))
            kinds.append("clear with an empty clip stack vs under a surface-covering clip")
        else:
            iw, ih = rng.randrange(1, 6), rng.randrange(1, 6)
            img = "%d %d %s" % (iw, ih, " ".join(gen.hexpx(gen.premul_pixel(rng)) for _ in range(iw * ih)))
            A.append("scene %d %s ; drawimage %d %d %s %s" % (len(A), hdr, FB(float(x)), FB(float(y)), img, opts))
            B.append("scene %d %s ; fillrect %d %d %d %d image %s pad bilinear %s %s" % (
                len(B), hdr, FB(float(x)), FB(float(y)), FB(float(iw)), FB(float(ih)), img,
                scene.xf_tokens((1.0, 0.0, 0.0, 1.0, float(-x), float(-y))), opts))
            kinds.append("draw_image_at at an integer position vs fill_rect with the translated image source")
    for kind_, a_, b_ in core.corpus_pairs("C14"):      # pairs kept from earlier failures run too
        ta, tb = a_.split(" ", 2), b_.split(" ", 2)
        A.append("%s %d %s" % (ta[0], len(A), ta[2])); B.append("%s %d %s" % (tb[0], len(B), tb[2])); kinds.append(kind_)
    ra, _ = build.run_sharded(build.RQV, sc.augment(A))
    rb, _ = build.run_sharded(build.RQV, sc.augment(B))
    ctx.cov["metamorphic_pairs"] = len(A)
    nt = 0
    for a, b, la, lb, kind in zip(ra, rb, A, B, kinds):
        pa, pb = scene.split_results(a)[1], scene.split_results(b)[1]
        fa = pa[-1] if pa else "panic"
        fb = pb[-1] if pb else "panic"
        if fa in ("panic", "hang") or fb in ("panic", "hang"):
            if (fa in ("panic", "hang")) != (fb in ("panic", "hang")):
                ctx.violation("pair-%s" % la.split()[1], la + "\n" + lb, kind + ": only one of the two routes panicked")
                return
            continue
        sa, sb = sc.OpRes(fa).parse()["surface"], sc.OpRes(fb).parse()["surface"]
        nt += 1
        if sa != sb:
            ctx.violation("pair-%s" % la.split()[1], la + "\n" + lb, "the two routes must give identical pixels: " + kind)
            return
    ctx.cov["pairs_compared"] = nt


def post(ctx, sr):
    pairs(ctx)


def concrete(sr, i, k, c, op):
    return None


ASSUME = ["non-separable blend modes that panic in the dependency panic on both routes alike"]


def run(ctx):
    return _scene.run_property(ctx, CFG, 2000, 15000, RULE, concrete, ASSUME, post=post)


def replay(ctx, path):
    return _scene.replay(ctx, path, concrete, post)
