"""C15 - surface copies and blends place exactly the requested block."""
from .. import core, gen, build

RULE = ("random copy_surface / blend_surface (28 modes) / blend_surface_with_alpha calls on destinations with and without a "
        "transform, a clip rectangle and an open layer set (all of which must be ignored): destination and source "
        "sizes 0..6 (sometimes up to 40, a few up to 300), src_rect inside/overlapping/outside/empty/inverted incl. far away (up to "
        "the ends of the i32 range; near-identity transfers between equal-sized surfaces), dst negative/inside/beyond, premultiplied random pixels; non-trivial = at least one destination pixel "
        "is written AND (src_rect.min != (0,0) or the block is cut by a source or destination edge); distinct by "
        "case text. thorough adds the exhaustive enumeration of all rectangles in -1..3 and offsets in -2..3 on "
        "small surfaces")


def size(rng):
    c = rng.random()
    if c < 0.08:
        return 0
    if c < 0.85:
        return rng.randrange(1, 7)
    if c < 0.97:
        return rng.randrange(7, 41)
    return rng.choice([64, 65, 129, 257, 300])        # past 64 / 128 / 256 pixels in one direction


def coord(rng, n):
    c = rng.random()
    if c < 0.06:
        return rng.choice([-1, 1]) * rng.choice([10 ** 6, 2 ** 20, 2 ** 29, 2 ** 29 - 1, 3 * 10 ** 8, 2 ** 30, 2 ** 31 - 1, 2 ** 31 - 2, 2 ** 31 - 5])
    return rng.randrange(-3, n + 4)


def make_case(rng, cid, kind=None):
    dw, dh, sw, sh = size(rng), size(rng), size(rng), size(rng)
    c = rng.random()
    if c < 0.1:
        # near-identity transfers: surfaces of equal size, a rectangle of (about) the source's size at (about) its origin,
        # destination (about) the origin - whole-surface short cuts live here
        dw, dh = sw, sh
        x0, y0 = rng.choice([0, 0, 1, -1, 2, -2]), rng.choice([0, 0, 1, -1, 2])
        x1, y1 = x0 + sw + rng.choice([0, 0, 0, 1, -1]), y0 + sh + rng.choice([0, 0, 0, 1, -1])
        dx, dy = rng.choice([0, 0, 0, 1, -1]), rng.choice([0, 0, 0, 1, -1])
    elif c < 0.7:
        # mostly-valid stream: src_rect overlaps the source, block overlaps the destination
        x0, y0 = rng.randrange(-2, sw + 1), rng.randrange(-2, sh + 1)
        x1, y1 = x0 + rng.randrange(1, sw + 3), y0 + rng.randrange(1, sh + 3)
        dx = rng.randrange(-(x1 - x0) + 1, dw + 1)
        dy = rng.randrange(-(y1 - y0) + 1, dh + 1)
    else:
        x0, y0 = coord(rng, sw), coord(rng, sh)
        if rng.random() < 0.6:
            x1, y1 = x0 + rng.randrange(0, sw + 3), y0 + rng.randrange(0, sh + 3)
        else:
            x1, y1 = coord(rng, sw), coord(rng, sh)
        dx, dy = coord(rng, dw), coord(rng, dh)
    I32 = lambda v: max(-2 ** 31, min(2 ** 31 - 1, v))
    x0, y0, x1, y1, dx, dy = map(I32, (x0, y0, x1, y1, dx, dy))
    k = kind or rng.choice(["copy", "copy", "blend", "blend", "alpha"])
    if k == "copy":
        param = 0
    elif k == "blend":
        param = rng.randrange(gen.N_MODES)
    else:
        param = gen.alpha_bits(rng)
    dpx = [gen.premul_pixel(rng) for _ in range(dw * dh)]
    spx = [gen.premul_pixel(rng) for _ in range(sw * sh)]
    return fmt(cid, k, param, dw, dh, sw, sh, x0, y0, x1, y1, dx, dy, dpx, spx)


def fmt(cid, k, param, dw, dh, sw, sh, x0, y0, x1, y1, dx, dy, dpx, spx):
    return "surf %d %s %d %d %d %d %d %d %d %d %d %d %d D %s S %s" % (
        cid, k, param, dw, dh, sw, sh, x0, y0, x1, y1, dx, dy,
        " ".join(map(gen.hexpx, dpx)), " ".join(map(gen.hexpx, spx)))


def nontrivial(line):
    t = line.split()
    dw, dh, sw, sh, x0, y0, x1, y1, dx, dy = map(int, t[4:14])
    # block in source coordinates after both clippings
    ox, oy = dx - x0, dy - y0
    bx0 = max(x0, 0, -ox); bx1 = min(x1, sw, dw - ox)
    by0 = max(y0, 0, -oy); by1 = min(y1, sh, dh - oy)
    if bx0 >= bx1 or by0 >= by1:
        return False
    cut = (bx0, by0, bx1, by1) != (x0, y0, x1, y1)
    return cut or (x0, y0) != (0, 0)


def exhaustive(rng):
    """All src rectangles with coordinates in -1..3 and all offsets in -2..3, on small surfaces."""
    lines, cid = [], 1000000
    shapes = [((2, 2), (2, 2)), ((3, 2), (2, 3)), ((1, 1), (3, 3)), ((3, 3), (1, 1))]
    for (dw, dh), (sw, sh) in shapes:
        dpx = [0xff000000 | (0x100 + i) for i in range(dw * dh)]
        spx = [0xff000000 | (0x10000 * (i + 1)) for i in range(sw * sh)]
        for x0 in range(-1, 4):
            for y0 in range(-1, 4):
                for x1 in range(-1, 4):
                    for y1 in range(-1, 4):
                        for dx in range(-2, 4):
                            for dy in range(-2, 4):
                                lines.append(fmt(cid, "copy", 0, dw, dh, sw, sh, x0, y0, x1, y1, dx, dy, dpx, spx))
                                cid += 1
    return lines


def run(ctx):
    if not core.prepare(ctx):
        return core.finish(ctx, rule=RULE)
    core.proof_gate(ctx)
    n = 10000 if ctx.tier == "quick" else 60000
    lines = corpus_lines(ctx) + [make_case(ctx.rng, i) for i in range(n)]
    if ctx.tier == "thorough":
        lines += exhaustive(ctx.rng)
        ctx.cov["exhaustive_small_space"] = True
    impl, model, died_i, died_m = core.correspond(lines)
    evaluate(ctx, lines, impl, model, died_i, died_m)
    kinds = {}
    for l in lines:
        k = l.split()[2]
        kinds[k] = kinds.get(k, 0) + 1
    distinct = len(set(" ".join(l.split()[2:]) for l in lines if nontrivial(l)))
    return core.finish(ctx, rule=RULE, samples=[lines[len(lines) // 3][:400], lines[-1][:400]],
                       evaluations=len(lines), distinct=distinct,
                       extra=dict(kind_distribution=kinds, exhaustive=False),
                       assumptions=["any i32 coordinates of src_rect and dst (theorem domain dom_ok: non-negative sizes only)",
                                    "pixels premultiplied (generator); blend modes whose formula trips "
                                    "sw-composite's debug assertion (mode Color, see C18) are compared as 'both panic'"])


def corpus_lines(ctx):
    return core.corpus("C15", ctx.tier)


def evaluate(ctx, lines, impl, model, died_i, died_m):
    if died_m or len(model) != len(lines):
        ctx.violation("model-died", "the extracted model failed on the case file: %s" % (died_m,),
                      "model driver failed", found_input=False)
        return
    if died_i or len(impl) != len(lines):
        bad = lines[min(len(impl), len(lines) - 1)]
        ctx.violation("impl-died", bad, "the implementation aborted or hung (no result line) on this case")
        return
    mism = [i for i in range(len(lines)) if core.canon(impl[i]) != core.canon(model[i])]
    ctx.cov["disagreements"] = len(mism)
    # model-predicted errors other than the debug assertion of the Color blend are violations of C15 itself
    for i in range(len(lines)):
        m = model[i].split()
        if m[1] == "err" and m[2] not in ("DebugAssert", "PixelOverflow") and i not in mism:
            ctx.violation("err-%s" % m[0], lines[i], "out-of-bounds access or overflow (%s) for an in-range call" % m[2])
            return
    if not mism:
        return
    # search for a concrete failing input: evaluate the extracted statement of C15 on the implementation's output
    spec_lines = []
    for i in mism[:2000]:
        t = impl[i].split()
        obs = "panic" if t[1] == "panic" else " ".join(t[2:])
        spec_lines.append("surfspec" + lines[i][4:] + " O " + obs)
    out, died = build.run_sharded(build.DRIVER, spec_lines)
    bad = [mism[j] for j, o in enumerate(out) if o.split()[-1] == "bad"]
    if bad:
        # smallest failing case first
        i = min(bad, key=lambda k: len(lines[k]))
        ctx.cov["spec_failures"] = len(bad)
        ctx.violation("case-%s" % lines[i].split()[1], lines[i],
                      "block-transfer statement fails on the implementation's output: got `%s`, model `%s`"
                      % (impl[i][:200], model[i][:200]))
    else:
        i = mism[0]
        ctx.violation("corr-%s" % lines[i].split()[1],
                      lines[i] + "\n# correspondence Surface.surface_op vs DrawTarget::*_surface no longer checks"
                      "\n# impl:  " + impl[i] + "\n# model: " + model[i],
                      "model and implementation disagree but the block-transfer statement still holds on the "
                      "implementation's outputs", found_input=False)


def replay(ctx, path):
    lines = [l.strip() for l in open(path) if l.strip() and not l.startswith("#")]
    if not core.prepare(ctx):
        return 1
    impl, model, di, dm = core.correspond(lines, shards=1)
    evaluate(ctx, lines, impl, model, di, dm)
    for a, b in zip(impl, model):
        print("impl : " + a[:300]); print("model: " + b[:300])
    return 1 if ctx.violations else 0
