"""C16 - flattening preserves geometry and subpath structure."""
import math
from .. import pathcheck as pc, scene, geom
from ..gen import f32bits as FB, bits_f32
from . import _path

RULE = ("paths with every op order (curves as first op, directly after MoveTo, after Close, after a second Close; repeated "
        "MoveTo; zero-length and looping curves whose end equals their start) on the quarter grid and off it, tolerances "
        "0.01..1, and curves up to 1000 px at tolerances down to 0.0005 (hundreds of segments per curve); Path::flatten's op list is compared exactly with the model (non-curve ops bit-identical, lyon's points per "
        "curve supplied by the harness from the cursor the fill-side semantics gives); the statement is then checked on the "
        "crate's output: only MoveTo/LineTo/Close, MoveTo/LineTo/Close preserved in order, each curve replaced by points "
        "within 8*tolerance of the curve, in parameter order, ending bit-exactly at the curve's end point, the curve "
        "itself within 8*tolerance of the polyline, winding rule preserved; non-trivial = path with a curve")


def make_lines(rng, n):
    lines = []
    for i in range(n):
        ops = pc.mixed_ops(rng)
        tol = rng.choice([0.1, 0.01, 1.0, 0.5, 0.05])
        if i % 10 == 3:
            # coordinates that are not on any grid (and some far from the origin): nothing the flattener computes is exact
            off = rng.choice([0.0, 0.0, 1000.0, 300000.0])
            ops = pc.mixed_ops(rng, pt=lambda r: (off + r.random() * 60 - 10, r.random() * 60 - 10))
        if i % 40 == 39:
            # large curves at a fine tolerance: hundreds of segments per curve
            big = lambda r: (r.randrange(-200, 4000) / 4.0, r.randrange(-200, 4000) / 4.0)
            ops = pc.mixed_ops(rng, pt=big)
            tol = rng.choice([0.004, 0.001, 0.0005, 0.02])
        lines.append("pflatten %d %d %s" % (i, FB(tol), scene.path_tokens(ops, rng.randrange(2))))
    return lines


def oracle(aug, impl):
    t = aug.split()
    tol = bits_f32(int(t[2]))
    w, ops, i = _path.parse_path(t, 3)
    it = impl.split()
    if it[1] != "ok":
        return "flatten panicked"
    w2, fops, _ = _path.parse_path(it, 2)
    if w2 != w:
        return "winding rule not preserved"
    if any(o[0] not in ("M", "L", "Z") for o in fops):
        return "flattened path contains a curve op"
    # walk both op lists with the fill-side cursor
    # number of points lyon returned for each curve, from the harness (ORACLE n (k pts)*)
    counts = []
    if "ORACLE" in t:
        q = t.index("ORACLE")
        n = int(t[q + 1]); q += 2
        for _ in range(n):
            k = int(t[q]); counts.append(k); q += 1 + 2 * k
    ci = 0
    cur = start = None
    j = 0
    for o in ops:
        if o[0] == "M":
            if j >= len(fops) or fops[j] != o:
                return "MoveTo not preserved in place"
            j += 1; cur = start = (o[1], o[2])
        elif o[0] == "L":
            if j >= len(fops) or fops[j] != o:
                return "LineTo not preserved in place"
            j += 1
            if cur is None:
                start = (o[1], o[2])
            cur = (o[1], o[2])
        elif o[0] == "Z":
            if j >= len(fops) or fops[j] != o:
                return "Close not preserved in place"
            j += 1; cur = start
        else:
            ctrl = [(o[k], o[k + 1]) for k in range(1, len(o), 2)]
            end = ctrl[-1]
            if cur is None:
                if j >= len(fops) or fops[j] != ("L", ctrl[0][0], ctrl[0][1]):
                    return "a curve with no current point must start at its first control point (as filling does)"
                j += 1
                start = cur = ctrl[0]
            pts = [cur]
            # the run of LineTo's of this curve: up to and including the first one equal to the end point
            k = j
            want = counts[ci] if ci < len(counts) else None
            ci += 1
            while k < len(fops) and fops[k][0] == "L":
                pts.append((fops[k][1], fops[k][2]))
                k += 1
                if want is not None:
                    if k - j == want:
                        break
                elif pts[-1] == end:
                    break
            if len(pts) < 2 or pts[-1] != end:
                # a curve whose end equals its start may legitimately flatten to ... at least its end point
                return "the polyline of a curve does not end exactly at the curve's end point"
            full = [cur] + ctrl
            if all(geom.finite(*p) for p in full):
                cp = geom.curve_points(o[0], full, n=128)
                scale = max(1.0, max(abs(v) for p in full for v in p))
                lim = 8 * tol + 1e-4 * scale
                for p in pts:
                    if geom.dist_to_curve(p, cp) > lim and geom.dist_to_curve_exact(p, o[0], full) > lim:
                        return "a vertex of the flattened curve is farther than 8*tolerance from the curve"
                for p in cp:
                    if geom.polyline_dist(p, pts) > lim:
                        return "the curve deviates more than 8*tolerance from its polyline (starting at the cursor)"
            j = k
            cur = end
    if j != len(fops):
        return "extra ops in the flattened path"
    return None


def nontrivial(aug, impl):
    return " Q " in aug or " C " in aug


ASSUME = ["lyon_geom's flattening is an oracle: its points are checked against the curve numerically (f64), not proved",
          "deviation measured with 64 samples per curve"]


def fill_vs_flatten(ctx):
    """"flattening preserves geometry": filling the flattened path paints what filling the path itself paints.  Evaluated
    on the crate (Path::flatten's own output is fed back to DrawTarget::fill), away from the outline: where the fill of
    the original has a 3x3 block of fully painted (or untouched) pixels the fill of the flattening must agree."""
    from .. import build, scenecheck as sc, core
    rng = ctx.rng
    n = 80 if ctx.tier == "quick" else 1500
    W = H = 30
    paths, rules = [], []
    for i in range(n):
        if i % 2:
            ops = scene.curvy_path(rng, W, H)
        else:   # every op order: curves first, directly after Close, after a second Close, repeated MoveTo
            ops = pc.mixed_ops(rng, pt=lambda r: (r.randrange(-8, 4 * W + 8) / 4.0, r.randrange(-8, 4 * H + 8) / 4.0))
        paths.append(ops); rules.append(rng.randrange(2))
    fl = ["pflatten %d %d %s" % (i, FB(0.1), scene.path_tokens(ops, r)) for i, (ops, r) in enumerate(zip(paths, rules))]
    out, died = build.run_sharded(build.RQV, fl)
    zero = " ".join(["00000000"] * (W * H))
    A, B = [], []
    for i, line in enumerate(out):
        t = line.split()
        if len(t) < 5 or t[1] != "ok":
            continue
        flat = " ".join(t[2:])          # "P w n ops..."
        A.append("scene %d %d %d I %s ; fill %s solid ffffffff 3 %d 1" % (i, W, H, zero, scene.path_tokens(paths[i], rules[i]), FB(1.0)))
        B.append("scene %d %d %d I %s ; fill %s solid ffffffff 3 %d 1" % (i, W, H, zero, flat, FB(1.0)))
    # the statement is evaluated exactly as for C08, with the ORIGINAL path as the exact shape and the crate's fill of
    # the FLATTENED path as the picture: pixels farther than 1 px (+ half diagonal) from the exact outline must be
    # fully painted inside and untouched outside
    from . import C08
    meta = []
    for la in A:
        i = int(la.split()[1])
        meta.append((paths[i], rules[i], scene.IDENT, False))
    ctx.cov["fill_vs_flatten_pairs"] = len(B)
    B2 = ["scene %s %d %d I %s ; xf %s ; %s" % (lb.split()[1], W, H, zero, scene.xf_tokens(scene.IDENT), lb.split(" ; ", 1)[1]) for lb in B]
    C08.eval_scenes(ctx, B2, meta, what="flatfill")
    if not ctx.violations:
        # ... and so must the fill of the path itself: the two fills agree because both are the same exact shape (a curve
        # that is the first op, or follows Close, starts where flatten() says it starts)
        A2 = ["scene %s %d %d I %s ; xf %s ; %s" % (la.split()[1], W, H, zero, scene.xf_tokens(scene.IDENT), la.split(" ; ", 1)[1]) for la in A]
        C08.eval_scenes(ctx, A2, meta, what="origfill")


def hit_test_agreement(ctx):
    """"hit-testing the flattened path agrees with the original path up to that deviation": Path::contains_point on a curved
    path and on Path::flatten of it, for points aimed at the bulges of the curves and farther from the exact outline than
    the tolerance"""
    from .. import build
    from . import C17
    rng = ctx.rng
    n = 600 if ctx.tier == "quick" else 8000
    tol = 0.1
    paths, queries = [], []
    for i in range(n):
        P = lambda: pc.gridpt(rng)
        if rng.random() < 0.5:
            cv = ("Q %s %s" % (scene.fpt(*P()), scene.fpt(*P()))) if rng.random() < 0.4 else ("C %s %s %s K 0" % (scene.fpt(*P()), scene.fpt(*P()), scene.fpt(*P())))
            ops = ["M " + scene.fpt(*P()), cv] + ["L " + scene.fpt(*P()) for _ in range(rng.randrange(0, 2))] + ["Z"]
        else:
            ops = pc.mixed_ops(rng)
        ce = C17.curve_extremes(ops)
        if not ce:
            continue
        (sx, sy), (mx, my) = rng.choice(ce)
        k = rng.choice([0.05, 0.1, 0.2, 0.3, -0.05])
        paths.append(scene.path_tokens(ops, rng.randrange(2)))
        queries.append((sx + (mx - sx) * k, sy + (my - sy) * k))
    fl, _ = build.run_sharded(build.RQV, ["pflatten %d %d %s" % (i, FB(tol), p) for i, p in enumerate(paths)])
    qa, qb, keep = [], [], []
    for i, (p, (x, y), f) in enumerate(zip(paths, queries, fl)):
        t = f.split()
        if len(t) < 5 or t[1] != "ok":
            continue
        qa.append("pcontains %d %d %d %d %s" % (i, FB(tol), FB(x), FB(y), p))
        qb.append("pcontains %d %d %d %d %s" % (i, FB(tol), FB(x), FB(y), " ".join(t[2:])))
        keep.append(i)
    ra, _ = build.run_sharded(build.RQV, qa)
    rb, _ = build.run_sharded(build.RQV, qb)
    ctx.cov["hit_test_pairs"] = len(qa)
    for a, b, la, lb in zip(ra, rb, qa, qb):
        ta, tb = a.split(), b.split()
        if len(ta) < 3 or len(tb) < 3 or ta[1] != "ok" or tb[1] != "ok" or ta[2] == tb[2]:
            continue
        ind = C17.independent(la)
        if ind is not None and ind[1] > tol + 0.05:
            ctx.violation("hit-%s" % la.split()[1], la + "\n" + lb,
                          "contains_point says %s for the path and %s for its flattening at a point %.3f from the exact outline (tolerance %g)" % (ta[2], tb[2], ind[1], tol))
            return


def run(ctx):
    from .. import core
    if core.prepare(ctx):
        fill_vs_flatten(ctx)
        if not ctx.violations:
            hit_test_agreement(ctx)
    return _path.run_property(ctx, make_lines, RULE, oracle, ASSUME, nontrivial, 5000, 100000,
                              "PathOps.flatten vs Path::flatten")


def replay(ctx, path):
    return _path.replay(ctx, path, oracle, "PathOps.flatten vs Path::flatten")
