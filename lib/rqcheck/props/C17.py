"""C17 - contains_point agrees with the fill rule."""
import math
from .. import core, pathcheck as pc, scene, scenecheck as sc, build, gen, geom
from ..gen import f32bits as FB, bits_f32
from . import _path

RULE = ("flat polygons on the quarter-pixel grid (1..3 subpaths, open/closed, both orientations, self-intersecting, zero-length "
        "and horizontal edges, ops after Close, paths starting with LineTo) and curved paths (flattened by the crate), both "
        "winding rules; query points biased to share y or x with a vertex, to lie on an edge, or on its extension beyond the "
        "ends; the crate's answer is compared with the f32 model (all cases) and, on grid cases where f32 is exact, with the "
        "extracted declarative statement (winding number of the implicitly closed path or on a segment); plus agreement with "
        "fill: points at the centre of pixels whose 3x3 neighbourhood is fully painted / untouched; non-trivial = query "
        "level with a vertex or on an edge line; curved and off-grid cases are judged by the same statement evaluated in "
        "exact rational arithmetic on the path Path::flatten returns (undetermined when the point is within 1e-5 relative "
        "of an edge line); the fill agreement covers curved paths with every op order")


def grid_ops(rng):
    return pc.polyline_ops(rng, pt=lambda r: (r.randrange(-16, 49) / 4.0, r.randrange(-16, 49) / 4.0))


def verts(ops):
    out = []
    for o in ops:
        t = o.split()
        if t[0] in ("M", "L"):
            out.append((bits_f32(int(t[1])), bits_f32(int(t[2]))))
    return out


def query(rng, ops):
    vs = verts(ops) or [(0.0, 0.0)]
    c = rng.random()
    v = rng.choice(vs)
    if c < 0.3:
        return (rng.randrange(-24, 60) / 4.0, v[1])          # level with a vertex
    if c < 0.4:
        return (v[0], rng.randrange(-24, 60) / 4.0)
    if c < 0.65 and len(vs) >= 2:
        i = rng.randrange(len(vs) - 1)
        a, b = vs[i], vs[i + 1]
        k = rng.choice([0.5, 0.25, 2.0, -1.0, 1.0, 0.0, 1.5])
        return (a[0] + (b[0] - a[0]) * k, a[1] + (b[1] - a[1]) * k)   # on the edge line, inside or beyond
    return (rng.randrange(-24, 60) / 4.0, rng.randrange(-24, 60) / 4.0)


def curve_extremes(ops):
    """for every curve of the path (cursor as filling keeps it): its samples farthest up / down / left / right, each with
    the midpoint of the curve's chord -> [(sample, chord_mid)]"""
    out, cur, start = [], None, None
    for o in ops:
        t = o.split()
        v = [bits_f32(int(z)) for z in t[1:] if z.lstrip("-").isdigit()] if t[0] in "MLQC" else []
        if t[0] == "M":
            cur = start = (v[0], v[1])
        elif t[0] == "L":
            if cur is None:
                start = (v[0], v[1])
            cur = (v[0], v[1])
        elif t[0] == "Z":
            cur = start
        elif t[0] in ("Q", "C"):
            n = 4 if t[0] == "Q" else 6
            pts = [(v[j], v[j + 1]) for j in range(0, n, 2)]
            if cur is None:
                cur = start = pts[0]
            full = [cur] + pts
            sam = [geom.quad(full[0], full[1], full[2], k / 16.0) if t[0] == "Q" else geom.cubic(full[0], full[1], full[2], full[3], k / 16.0)
                   for k in range(1, 16)]
            mid = ((full[0][0] + full[-1][0]) / 2, (full[0][1] + full[-1][1]) / 2)
            for key in (lambda p: p[1], lambda p: -p[1], lambda p: p[0], lambda p: -p[0]):
                out.append((max(sam, key=key), mid))
            cur = pts[-1]
    return out


def make_lines(rng, n):
    lines = []
    for i in range(n):
        if rng.random() < 0.8:
            ops = grid_ops(rng)
        else:
            ops = pc.mixed_ops(rng)
            if rng.random() < 0.3:
                # one curve closed by its chord (or by a couple of lines): its bulge is the path's extreme
                P = lambda: pc.gridpt(rng)
                cv = ("Q %s %s" % (scene.fpt(*P()), scene.fpt(*P()))) if rng.random() < 0.4 else \
                     ("C %s %s %s K 0" % (scene.fpt(*P()), scene.fpt(*P()), scene.fpt(*P())))
                ops = ["M " + scene.fpt(*P()), cv] + ["L " + scene.fpt(*P()) for _ in range(rng.randrange(0, 2))] + ["Z"]
        x, y = query(rng, ops)
        if i % 16 == 7:
            # vertices on a 1/32 grid hundreds of pixels out, the query exactly on an edge (1/2, 1/4, 3/4 of the way): the
            # two products of the cross product need more than 24 bits and are rounded - to the same float
            fine = lambda r: (r.randrange(-2000, 16000) / 32.0, r.randrange(-2000, 16000) / 32.0)
            ops = pc.polyline_ops(rng, pt=fine)
            vs = verts(ops)
            if len(vs) >= 2:
                j = rng.randrange(len(vs) - 1)
                k = rng.choice([0.5, 0.25, 0.75, 0.5])
                x, y = vs[j][0] + (vs[j + 1][0] - vs[j][0]) * k, vs[j][1] + (vs[j + 1][1] - vs[j][1]) * k
        ce = curve_extremes(ops) if rng.random() < 0.6 else []
        if ce:
            # just inside (or just beyond) the farthest point of a curve's bulge
            (sx, sy), (mx, my) = rng.choice(ce)
            k = rng.choice([0.02, 0.05, 0.1, 0.2, -0.02])
            x, y = sx + (mx - sx) * k, sy + (my - sy) * k
        u = rng.random()
        if u < 0.08:
            # a point on an edge line moved off it by a unit or two in the last place: it is NOT on the edge any more
            bx = FB(x) + rng.choice([-2, -1, 1, 2]) if x != 0 else FB(x)
            x = bits_f32(bx)
        elif u < 0.14:
            # the same shape and point at a thousandth of the size (exact powers of two keep the geometry similar)
            k = rng.choice([1.0 / 1024, 1.0 / 65536, 1024.0])
            ops = [" ".join([o.split()[0]] + [str(FB(bits_f32(int(v)) * k)) if o.split()[0] in ("M", "L") else v for v in o.split()[1:]]) for o in ops]
            x, y = x * k, y * k
        lines.append("pcontains %d %d %d %d %s" % (i, FB(rng.choice([0.1, 0.01, 0.5])), FB(x), FB(y),
                                                   scene.path_tokens(ops, rng.randrange(2))))
    return lines


def is_quarter(v):
    return v * 4 == int(v * 4) and abs(v) < 1024


def to_z_case(aug):
    """grid case -> pcontz line, or None when the path has curves or off-grid numbers"""
    t = aug.split()
    x0, y0 = bits_f32(int(t[3])), bits_f32(int(t[4]))
    w, ops0, i = _path.parse_path(t, 5)
    # the statement is invariant under scaling; shapes scaled by a power of two are judged on the unscaled grid
    for k in (1.0, 1024.0, 65536.0, 1.0 / 1024):
        x, y = x0 * k, y0 * k
        ops = [((o[0], o[1] * k, o[2] * k) if o[0] in ("M", "L") else o) for o in ops0]
        if not (is_quarter(x) and is_quarter(y)):
            continue
        zops, ok = [], True
        for o in ops:
            if o[0] in ("M", "L"):
                if not (is_quarter(o[1]) and is_quarter(o[2])):
                    ok = False; break
                zops.append("%s %d %d" % (o[0], int(o[1] * 4), int(o[2] * 4)))
            elif o[0] == "Z":
                zops.append("Z")
            else:
                ok = False; break
        if ok:
            return "pcontz %s %d %d %d %d %s" % (t[1], w, int(x * 4), int(y * 4), len(zops), " ".join(zops))
    return None


SPEC = {}


def segments_of(ops):
    """closed edges of a MoveTo/LineTo/Close path as filling sees them (implicit close, Close returns to the start)"""
    from fractions import Fraction as Fr
    segs, cur, first = [], None, None
    for o in ops:
        if o[0] == "M":
            if cur is not None and first is not None:
                segs.append((cur, first))
            cur = first = (Fr(o[1]), Fr(o[2]))
        elif o[0] == "L":
            p = (Fr(o[1]), Fr(o[2]))
            if cur is None:
                first = p
            else:
                segs.append((cur, p))
            cur = p
        else:
            if cur is not None and first is not None:
                segs.append((cur, first))
            cur = first
    if cur is not None and first is not None:
        segs.append((cur, first))
    return segs


def is_f32(fr):
    from fractions import Fraction as Fr
    try:
        v = bits_f32(FB(float(fr)))
    except OverflowError:
        return False
    return v == v and abs(v) != float("inf") and Fr(v) == fr


def exact_statement(aug):
    """The statement evaluated in exact rational arithmetic on the path Path::flatten returns (FLAT, from the crate):
    winding number of the implicitly closed polygon (or on one of its segments).  None when the point is so close to an
    edge line that the sign of the f32 cross product is not determined by the exact one."""
    from fractions import Fraction as Fr
    t = aug.split()
    if "FLAT" not in t:
        return None
    x, y = bits_f32(int(t[3])), bits_f32(int(t[4]))
    if x != x or y != y or abs(x) == float("inf") or abs(y) == float("inf"):
        return None
    w, ops, _ = _path.parse_path(t, t.index("FLAT") + 1)
    if any(o[0] not in "MLZ" for o in ops) or any(v != v or abs(v) == float("inf") for o in ops for v in o[1:]):
        return None
    x, y = Fr(x), Fr(y)
    wn, on = 0, False
    for a, b in segments_of(ops):
        dx, dy = b[0] - a[0], b[1] - a[1]
        t1, t2 = dx * (y - a[1]), dy * (x - a[0])
        cr = t1 - t2
        spans = (a[1] <= y < b[1]) or (b[1] <= y < a[1])
        inbox = min(a[0], b[0]) <= x <= max(a[0], b[0]) and min(a[1], b[1]) <= y <= max(a[1], b[1])
        if (spans or inbox) and cr != 0 and abs(cr) <= (abs(t1) + abs(t2)) / 100000:
            return None
        # exactly collinear in rational arithmetic: when the four differences are exact in f32 the two products are the
        # same real number, round to the same float and the crate's cross product is exactly 0; otherwise undetermined
        if (spans or inbox) and cr == 0 and t1 != 0:
            if not all(is_f32(v) for v in (dx, dy, y - a[1], x - a[0])):
                return None
        if cr == 0 and inbox:
            on = True
        elif a[1] <= y < b[1] and cr > 0:
            wn += 1
        elif b[1] <= y < a[1] and cr < 0:
            wn -= 1
    ins = (wn != 0) if w == 0 else (wn % 2 != 0)
    return "true" if (ins or on) else "false"


def independent(aug_or_query):
    """The point against the path's exact shape, computed here (f64; curves sampled 128 times, the cursor kept as filling
    keeps it: Close returns to the subpath's start, a curve with no current point starts at its first control point) and
    NOT through Path::flatten -> (inside?, distance to the outline) or None"""
    from . import C08
    t = aug_or_query.split()
    x, y = bits_f32(int(t[3])), bits_f32(int(t[4]))
    try:
        w, ops, _ = _path.parse_path(t, 5)
    except Exception:
        return None
    if not geom.finite(x, y) or any(not geom.finite(*o[1:]) for o in ops if len(o) > 1):
        return None
    subs = C08.fine_polygons(ops, scene.IDENT)
    # a subpath consisting of a single point is a (degenerate) segment of the path too
    dpt = min([math.hypot(o[k] - x, o[k + 1] - y) for o in ops for k in range(1, len(o) - 1, 2) if o[0] in "ML"] or [1e30])
    if not subs:
        return (False, dpt)
    wn = C08.winding(subs, (x, y))
    return ((wn != 0) if w == 0 else (wn % 2 != 0), min(dpt, C08.outline_dist(subs, (x, y))))


def oracle(aug, impl):
    sp = SPEC.get(aug.split()[1])
    if sp is None:
        sp = exact_statement(aug)
    t = aug.split()
    if " Q " in aug.split(" FLAT ")[0] or " C " in aug.split(" FLAT ")[0]:
        # curved path: the answer must also agree with the exact curved shape wherever the point is farther from the
        # outline than the flattening tolerance (the statement speaks about the path, whatever flatten() returns)
        ind = independent(aug)
        tol = bits_f32(int(t[2]))
        if ind is not None and geom.finite(tol) and ind[1] > abs(tol) + 0.05 and impl.split()[1] == "ok":
            if impl.split()[2] != ("true" if ind[0] else "false"):
                return "contains_point returned %s for a point %.3f from the outline (tolerance %g) that is %s the exact curved shape" % (
                    impl.split()[2], ind[1], tol, "inside" if ind[0] else "outside")
    if sp is None:
        return "skip"
    got = impl.split()[2]
    if got != sp:
        return "contains_point returned %s but the winding-number / on-segment statement gives %s" % (got, sp)
    return None


def nontrivial(aug, impl):
    t = aug.split()
    x, y = bits_f32(int(t[3])), bits_f32(int(t[4]))
    try:
        w, ops, _ = _path.parse_path(t, 5)
    except Exception:
        return False
    return any(o[0] in ("M", "L") and (o[2] == y or o[1] == x) for o in ops)


def on_some_segment(q):
    from fractions import Fraction as Fr
    t = q.split()
    x, y = Fr(bits_f32(int(t[3]))), Fr(bits_f32(int(t[4])))
    w, ops, _ = _path.parse_path(t, 5)
    if any(o[0] not in "MLZ" for o in ops):
        return True       # curved: cannot decide exactly, do not judge
    segs, cur, first = [], None, None
    for o in ops:
        if o[0] == "M":
            if cur is not None and first is not None:
                segs.append((cur, first))
            cur = first = (Fr(o[1]), Fr(o[2]))
        elif o[0] == "L":
            p = (Fr(o[1]), Fr(o[2]))
            if cur is None:
                first = p
            else:
                segs.append((cur, p))
            cur = p
        else:
            if cur is not None and first is not None:
                segs.append((cur, first))
            cur = first
    if cur is not None and first is not None:
        segs.append((cur, first))
    for a, b in segs:
        cr = (b[0] - a[0]) * (y - a[1]) - (b[1] - a[1]) * (x - a[0])
        if cr == 0 and min(a[0], b[0]) <= x <= max(a[0], b[0]) and min(a[1], b[1]) <= y <= max(a[1], b[1]):
            return True
    return False


def fill_agreement(ctx):
    """contains_point vs what fill paints, on the implementation"""
    rng = ctx.rng
    n = 400 if ctx.tier == "quick" else 4000
    W = H = 14
    scenes, paths = [], []
    for i in range(n):
        c = rng.random()
        if c < 0.4:
            ops = scene.grid_polygon(rng, W, H)
        elif c < 0.75:
            ops = scene.curvy_path(rng, W, H)
        else:   # every op order: a curve as the first op, directly after Close, after a second Close, repeated MoveTo
            P = lambda r: (r.randrange(-8, 4 * W + 8) / 4.0, r.randrange(-8, 4 * H + 8) / 4.0)
            ops = pc.mixed_ops(rng, pt=P)
            if 0.80 < c <= 0.88:   # a closed blob drawn with one curve that returns to its start, alone or as a hole in a rectangle
                # a fat drop: the two control points far apart beyond the opposite side of the surface
                u = rng.randrange(4, 4 * W - 4) / 4.0
                spread, reach = rng.randrange(32, 60) / 4.0, rng.randrange(56, 80) / 4.0
                pts3 = [(u, 1.0), (u - spread, 1.0 + reach), (u + spread, 1.0 + reach)]
                if rng.random() < 0.5:
                    pts3 = [(x_, H - y_) for x_, y_ in pts3]
                if rng.random() < 0.5:
                    pts3 = [(y_, x_) for x_, y_ in pts3]
                p0 = pts3[0]
                loop = ["M " + scene.fpt(*p0), "C %s %s %s K 0" % (scene.fpt(*pts3[1]), scene.fpt(*pts3[2]), scene.fpt(*p0))] + (["Z"] if rng.random() < 0.5 else [])
                ops = (["M " + scene.fpt(0.5, 0.5), "L " + scene.fpt(W - 0.5, 0.5), "L " + scene.fpt(W - 0.5, H - 0.5), "L " + scene.fpt(0.5, H - 0.5), "Z"] if rng.random() < 0.3 else []) + loop
            if c > 0.88:    # a path that begins with a curve (no MoveTo: the curve starts at its first control point), then lines
                first = ("Q %s %s" % (scene.fpt(*P(rng)), scene.fpt(*P(rng)))) if rng.random() < 0.5 else \
                        ("C %s %s %s K 0" % (scene.fpt(*P(rng)), scene.fpt(*P(rng)), scene.fpt(*P(rng))))
                ops = [first] + ["L " + scene.fpt(*P(rng)) for _ in range(rng.randrange(1, 4))] + (["Z"] if rng.random() < 0.5 else [])
        wd = rng.randrange(2)
        ptoks = scene.path_tokens(ops, wd)
        paths.append(ptoks)
        scenes.append("scene %d %d %d I %s ; fill %s solid ffffffff 3 %d 1" % (i, W, H, " ".join(["00000000"] * (W * H)), ptoks, FB(1.0)))
    impl, died = build.run_sharded(build.RQV, scenes)
    queries, expect = [], []
    for i, line in enumerate(impl):
        parts = scene.split_results(line)[1]
        if not parts or parts[0] == "panic":
            continue
        px = sc.OpRes(parts[0]).parse()["surface"]
        a = [int(p, 16) >> 24 for p in px]
        for y in range(1, H - 1):
            for x in range(1, W - 1):
                nb = [a[(y + dy) * W + x + dx] for dy in (-1, 0, 1) for dx in (-1, 0, 1)]
                if all(v == 255 for v in nb) or all(v == 0 for v in nb):
                    if rng.random() < 0.4:
                        queries.append("pcontains %d %d %d %d %s" % (len(queries), FB(0.05), FB(x + 0.5), FB(y + 0.5), paths[i]))
                        expect.append("true" if nb[0] == 255 else "false")
    ctx.cov["fill_agreement_queries"] = len(queries)
    if not queries:
        return
    out, died = build.run_sharded(build.RQV, queries)
    for q, o, e in zip(queries, out, expect):
        if o.split()[1] == "ok" and o.split()[2] != e:
            if e == "false" and on_some_segment(q):
                continue      # a zero-area part of the path passes exactly through the pixel centre: 'on a segment' wins
            # a sliver of the shape thinner than the sampling grid can pass through the centre of a pixel that fill leaves
            # untouched (or a gap through a painted one): the winding-number statement itself decides such a point, and
            # when it agrees with contains_point there is nothing to report (evaluated here on the exact shape, f64, not
            # through Path::flatten)
            ind = independent(q)
            if ind is not None and (ind[1] < 0.02 or ("true" if ind[0] else "false") == o.split()[2]):
                continue
            ctx.violation("fill-%s" % q.split()[1], q, "contains_point says %s for the centre of a pixel whose whole 3x3 neighbourhood fill %s"
                          % (o.split()[2], "painted fully" if e == "true" else "left untouched"))
            return


def run(ctx):
    def mk(rng, n):
        lines = make_lines(rng, n)
        return lines
    # the declarative statement on the grid cases: computed once from the extracted spec
    res = None
    if not core.prepare(ctx):
        return core.finish(ctx, rule=RULE)
    lines = _path.corpus(ctx.pid) + make_lines(ctx.rng, 6000 if ctx.tier == "quick" else 120000)
    z = [(l, to_z_case(l)) for l in lines]
    zl = [b for a, b in z if b]
    out, died = build.run_sharded(build.DRIVER, zl)
    SPEC.clear()
    nspec = 0
    for l, o in zip(zl, out):
        t = o.split()
        if t[2] != t[3]:
            ctx.violation("spec-%s" % t[0], l, "extracted contains_Z and contains_spec disagree (theorem C17_contains_iff would be false)", found_input=False)
        SPEC[t[0]] = t[3]
        nspec += 1
    ctx.cov["cases_checked_against_declarative_statement"] = nspec
    fill_agreement(ctx)
    fixed = iter(lines)
    return _path.run_property(ctx, lambda rng, n: lines, RULE, oracle,
                              ["f32 cross products are exact on the quarter grid within +-256 px (the domain on which the "
                               "integer theorem is compared with the crate)", "curved paths are flattened by the crate itself"],
                              nontrivial, 0, 0, "PathOps.contains_point_flat vs Path::contains_point")


def replay(ctx, path):
    lines = [l.strip() for l in open(path) if l.strip() and not l.startswith("#")]
    SPEC.clear()
    for l in lines:
        zc = to_z_case(l) if l.startswith("pcontains") and "FLAT" not in l else None
    return _path.replay(ctx, path, oracle, "PathOps.contains_point_flat vs Path::contains_point")
