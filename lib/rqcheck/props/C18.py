"""C18 - premultiplied-alpha validity is preserved by every drawing operation."""
from .. import scenecheck as sc, scene, gen
from . import _scene

CFG = dict(nops=8, maxdim=8, init="random", p_clip=0.2, p_layer=0.2, p_structured=0.5,
           modes=list(range(gen.N_MODES)),
           draw_kinds=["fill", "fill", "fill", "fillrect", "fillrect", "stroke", "clear", "mask", "drawimage", "drawimagesize", "surf", "surf"])
RULE = ("random scenes over all 28 blend modes, coverage and clip coverage 0..255, alpha in [0,1], layers, all source kinds, "
        "copy_surface / blend_surface / blend_surface_with_alpha among the drawing calls, "
        "premultiplied inputs; every pixel of the surface and of the top layer after every op of the implementation must "
        "satisfy r,g,b <= a; plus the unit sweep of blend(src,dst) over boundary grids in thorough tier")
KNOWN = "blend mode Color (sw-composite blend::Color, dependency): blend of premultiplied inputs can exceed alpha; trips pack_argb32's debug assertion"


def conversions(ctx):
    """Color / from_unpremultiplied_argb produce premultiplied colours: alpha over all boundary values x channel grid"""
    from .. import build
    rng = ctx.rng
    lines, cid = [], 0
    alphas = [0, 1, 2, 3, 127, 128, 254, 255] + ([rng.randrange(256) for _ in range(8)] if ctx.tier == "quick" else list(range(256)))
    chans = [0, 1, 127, 128, 254, 255] + [rng.randrange(256) for _ in range(6)]
    for a in alphas:
        for r in chans:
            lines.append("fmt %d 0 0 0 0 0 %d %d %d %d" % (cid, a, r, rng.choice(chans), rng.choice(chans))); cid += 1
    impl, _ = build.run_sharded(build.RQV, lines)
    model, _ = build.run_sharded(build.DRIVER, lines)
    ctx.cov["colour_conversions_checked"] = len(lines)
    for l, i, m in zip(lines, impl, model):
        t = i.split()
        if t[1] != "ok":
            ctx.violation("conv-%s" % t[0], l, "from_unpremultiplied_argb / From<Color> panicked or disagree with each other"); return
        f = [int(x) for x in t[t.index("F") + 1:t.index("F") + 5]]
        if f[1] > f[0] or f[2] > f[0] or f[3] > f[0] or f[0] != int(l.split()[7]):
            ctx.violation("conv-%s" % t[0], l, "from_unpremultiplied_argb(%s) = (a,r,g,b) %s is not premultiplied" % (" ".join(l.split()[7:11]), f)); return
        if core_canon(i) != core_canon(m):
            ctx.violation("convcorr-%s" % t[0], l + "\n# impl: " + i + "\n# model: " + m,
                          "colour conversion differs from the model (muldiv255) though still premultiplied", found_input=False); return


def core_canon(x):
    from .. import core
    return core.canon(x)


def post(ctx, sr):
    conversions(ctx)
    if ctx.violations:
        return
    worst = None
    for i in range(len(sr.cases)):
        bad = sc.premul_violations(sr, i)
        if bad and (worst is None or len(sr.aug[i]) < len(sr.aug[worst[0]])):
            worst = (i,) + bad[0]
    if worst:
        i, k, what = worst
        ctx.violation("premul-%s" % sr.cases[i].split()[1], sc.truncate_case(sr.aug[i], k), what + " (op %d)" % k)
    # the model predicts the debug assertion of pack_argb32 exactly where the dependency's blend leaves r,g,b <= a
    for i in range(len(sr.cases)):
        for k, r in enumerate(sr.model[i]):
            if r.panic and "DebugAssert" in r.raw:
                hdr, ops = scene.split_ops(sr.aug[i])
                if uses_mode(ops[k], 26) or any(o.startswith("layer") and o.split()[2] == "26" for o in ops[:k + 1]):
                    ctx.known(KNOWN)
                else:
                    ctx.violation("assert-%s" % sr.cases[i].split()[1], sc.truncate_case(sr.aug[i], k),
                                  "a blend of premultiplied inputs is not premultiplied (pack_argb32 assertion) in a mode other than Color")


def uses_mode(op, m):
    t = op.split()
    # opts are the last three tokens of drawing ops (before STROKED for strokes)
    if "STROKED" in t:
        t = t[:t.index("STROKED")]
    return len(t) >= 3 and t[-3] == str(m)


def concrete(sr, i, k, c, op):
    return None


ASSUME = ["sources and initial destination premultiplied", "blend mode Color is a known open finding (dependency)"]


def run(ctx):
    return _scene.run_property(ctx, CFG, 2000, 30000, RULE, concrete, ASSUME, post=post)


def replay(ctx, path):
    return _scene.replay(ctx, path, concrete, post)
