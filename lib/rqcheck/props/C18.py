"""C18 - premultiplied-alpha validity is preserved by every drawing operation."""
from .. import scenecheck as sc, scene, gen
from ..gen import f32bits as FB
from . import _scene

CFG = dict(nops=8, maxdim=8, init="random", p_clip=0.2, p_layer=0.2, p_structured=0.5,
           modes=list(range(gen.N_MODES)),
           draw_kinds=["fill", "fill", "fill", "fillrect", "fillrect", "stroke", "clear", "mask", "drawimage", "drawimagesize", "surf", "surf"])
RULE = ("random scenes over all 28 blend modes, coverage and clip coverage 0..255, alpha in [0,1], layers, all source kinds, "
        "copy_surface / blend_surface / blend_surface_with_alpha among the drawing calls, saturated destinations under sources whose alpha varies from pixel to pixel, "
        "premultiplied inputs; every pixel of the surface and of the top layer after every op of the implementation must "
        "satisfy r,g,b <= a; plus the unit sweep of blend(src,dst) over boundary grids in thorough tier")
KNOWN = "blend mode Color (sw-composite blend::Color, dependency): blend of premultiplied inputs can exceed alpha; trips pack_argb32's debug assertion"


def conversions(ctx):
    """Color / from_unpremultiplied_argb produce premultiplied colours: alpha over all boundary values x channel grid"""
    from .. import build
    rng = ctx.rng
    lines, cid = [], 0
    alphas = [0, 1, 2, 3, 127, 128, 254, 255] + ([rng.randrange(256) for _ in range(8)] if ctx.tier == "quick" else list(range(256)))
    chans = [0, 1, 127, 128, 254, 255] + [rng.randrange(256) for _ in range(6)]
    for a in alphas:
        for r in chans:
            lines.append("fmt %d 0 0 0 0 0 %d %d %d %d" % (cid, a, r, rng.choice(chans), rng.choice(chans))); cid += 1
    impl, _ = build.run_sharded(build.RQV, lines)
    model, _ = build.run_sharded(build.DRIVER, lines)
    ctx.cov["colour_conversions_checked"] = len(lines)
    for l, i, m in zip(lines, impl, model):
        t = i.split()
        if t[1] != "ok":
            ctx.violation("conv-%s" % t[0], l, "from_unpremultiplied_argb / From<Color> panicked or disagree with each other"); return
        f = [int(x) for x in t[t.index("F") + 1:t.index("F") + 5]]
        if f[1] > f[0] or f[2] > f[0] or f[3] > f[0] or f[0] != int(l.split()[7]):
            ctx.violation("conv-%s" % t[0], l, "from_unpremultiplied_argb(%s) = (a,r,g,b) %s is not premultiplied" % (" ".join(l.split()[7:11]), f)); return
        if core_canon(i) != core_canon(m):
            ctx.violation("convcorr-%s" % t[0], l + "\n# impl: " + i + "\n# model: " + m,
                          "colour conversion differs from the model (muldiv255) though still premultiplied", found_input=False); return


def core_canon(x):
    from .. import core
    return core.canon(x)


def post(ctx, sr):
    conversions(ctx)
    if ctx.violations:
        return
    worst = None
    for i in range(len(sr.cases)):
        bad = sc.premul_violations(sr, i)
        if bad and (worst is None or len(sr.aug[i]) < len(sr.aug[worst[0]])):
            worst = (i,) + bad[0]
    if worst:
        i, k, what = worst
        ctx.violation("premul-%s" % sr.cases[i].split()[1], sc.truncate_case(sr.aug[i], k), what + " (op %d)" % k)
    # the model predicts the debug assertion of pack_argb32 exactly where the dependency's blend leaves r,g,b <= a
    for i in range(len(sr.cases)):
        for k, r in enumerate(sr.model[i]):
            if r.panic and "DebugAssert" in r.raw:
                hdr, ops = scene.split_ops(sr.aug[i])
                if uses_mode(ops[k], 26) or any(o.startswith("layer") and o.split()[2] == "26" for o in ops[:k + 1]):
                    ctx.known(KNOWN)
                else:
                    ctx.violation("assert-%s" % sr.cases[i].split()[1], sc.truncate_case(sr.aug[i], k),
                                  "a blend of premultiplied inputs is not premultiplied (pack_argb32 assertion) in a mode other than Color")


def uses_mode(op, m):
    t = op.split()
    # opts are the last three tokens of drawing ops (before STROKED for strokes)
    if "STROKED" in t:
        t = t[:t.index("STROKED")]
    return len(t) >= 3 and t[-3] == str(m)


def concrete(sr, i, k, c, op):
    return None


ASSUME = ["sources and initial destination premultiplied", "blend mode Color is a known open finding (dependency)"]


def saturated(ctx, base):
    """Saturated destinations (opaque white / bright, channels at or near alpha) under sources whose alpha varies from
    pixel to pixel (images with transparent, half and opaque texels side by side, gradients from transparent to opaque),
    drawn by the integer fast routes and the general ones, SrcOver and the additive modes: where the weights of source and
    destination must add up to exactly one"""
    rng = ctx.rng
    n = 300 if ctx.tier == "quick" else 4000
    out = []
    for j in range(n):
        W, H = rng.randrange(2, 9), rng.randrange(1, 6)
        bright = rng.choice([0xffffffff, 0xffffffff, 0xfffefdfc, 0xff00ffff, 0xfefefefe, 0x80808080, 0xffff0000])
        px = [bright if rng.random() < 0.85 else gen.premul_pixel(rng) for _ in range(W * H)]
        ops = []
        for _ in range(rng.randrange(1, 4)):
            iw, ih = rng.randrange(2, 7), rng.randrange(1, 4)
            tex = []
            for _t in range(iw * ih):
                a = rng.choice([0, 0, 128, 255, 255, 1, 254, rng.randrange(256)])
                c = lambda: rng.choice([a, a, 0, a // 2, rng.randrange(a + 1)])
                tex.append((a << 24) | (c() << 16) | (c() << 8) | c())
            img = "%d %d %s" % (iw, ih, " ".join(gen.hexpx(t) for t in tex))
            mode = rng.choice([3, 3, 3, 3, 12, rng.randrange(gen.N_MODES)])
            alpha = FB(rng.choice([1.0, 1.0, 1.0, 0.5, rng.random()]))
            x, y = float(rng.randrange(-2, W)), float(rng.randrange(-1, H))
            c = rng.random()
            if c < 0.25:
                # a solid colour through the integer route, with a global alpha strictly between 0 and 1
                col = rng.choice([0xffff0000, 0xff0000ff, 0xffffffff, 0x80800000, gen.premul_pixel(rng)])
                ops.append("fillrect %d %d %d %d solid %s %d %d 1" % (
                    FB(x), FB(y), FB(float(rng.randrange(1, W + 2))), FB(float(rng.randrange(1, H + 2))), gen.hexpx(col), mode,
                    FB(rng.choice([0.5, 0.25, 0.75, 0.1, 0.9, rng.random()]))))
            elif c < 0.4:
                ops.append("drawimage %d %d %s %d %d 1" % (FB(x), FB(y), img, mode, alpha))
            elif c < 0.8:
                ops.append("fillrect %d %d %d %d image %s %s %s %s %d %d 1" % (
                    FB(x), FB(y), FB(float(rng.randrange(1, W + 2))), FB(float(rng.randrange(1, H + 2))), img,
                    rng.choice(["pad", "repeat"]), rng.choice(["nearest", "bilinear"]),
                    scene.xf_tokens((1.0, 0.0, 0.0, 1.0, float(rng.randrange(-2, 3)), float(rng.randrange(-1, 2)))), mode, alpha))
            else:
                ops.append("fillrect %d %d %d %d %s %d %d 1" % (
                    FB(x), FB(y), FB(float(rng.randrange(1, W + 2))), FB(float(rng.randrange(1, H + 2))),
                    scene.rand_source(rng, W, H, ["linearc", "linear", "radialc"]), mode, alpha))
        out.append("scene %d %d %d I %s ; %s" % (base + j, W, H, " ".join(gen.hexpx(p) for p in px), " ; ".join(ops)))
    return out


def run(ctx):
    return _scene.run_property(ctx, CFG, 3500, 30000, RULE, concrete, ASSUME, post=post, extra_lines=saturated)


def replay(ctx, path):
    return _scene.replay(ctx, path, concrete, post)
