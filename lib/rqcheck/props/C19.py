"""C19 - pixel word layout, byte views and PNG export agree."""
from .. import core, gen, build

RULE = ("surfaces of every size 0..6 x 0..6 (exhaustively) and random sizes up to 40, pixel values random premultiplied, "
        "boundary (0, ff, alpha 1, alpha 254) and arbitrary non-premultiplied words, wholly opaque / wholly transparent / single-colour surfaces, from_vec given fewer / exactly / more "
        "than w*h words: the word view (get_data, into_vec, from_backing, into_inner), the byte view (get_data_u8), one write "
        "through each mutable view read back through the other, the decoded write_png output (png crate) and "
        "SolidSource::to_u32 / from_unpremultiplied_argb / From<Color> are compared with the model; the statement is "
        "evaluated on the crate's output: bytes are B,G,R,A of the word, PNG pixels are (floor(c*255/a).., a) in row-major "
        "order with width x height, colours of transparent pixels passed through; non-trivial = at least one pixel with "
        "0 < alpha < 255")


def make_line(rng, cid, w, h):
    n = w * h
    c = rng.random()
    nn = n if c < 0.7 else max(0, n + rng.choice([-3, -1, 1, 5]))
    def px():
        c = rng.random()
        if c < 0.6:
            return gen.premul_pixel(rng)
        if c < 0.8:
            return rng.choice([0, 0xffffffff, 0x01010101, 0xfefefefe, 0x64646464, 0x07070707, 0xff000000, 0x80808080])
        return rng.getrandbits(32)
    pix = [px() for _ in range(nn)]
    u = rng.random()
    if u < 0.15:        # uniform surfaces: every pixel opaque / every pixel transparent / one colour
        pix = [0xff000000 | rng.getrandbits(24) for _ in range(nn)]
    elif u < 0.2:
        pix = [rng.getrandbits(24) if rng.random() < 0.5 else 0 for _ in range(nn)]
    elif u < 0.25:
        one = px()
        pix = [one] * nn
    return "fmt %d %d %d %d %s %d %d %d %d %d %d" % (cid, w, h, nn, " ".join(map(gen.hexpx, pix)), rng.randrange(0, 100000),
                                                   rng.randrange(256), rng.choice([0, 255, rng.randrange(256)]),
                                                   rng.randrange(256), rng.randrange(256), rng.randrange(256))


def fields(line):
    """'<id> ok W .. B .. M .. P w h .. U x F a r g b' -> dict"""
    t = line.split()
    out, key = {}, None
    for x in t[2:]:
        if x in ("W", "B", "M", "P", "U", "F"):
            key = x; out[key] = []
        else:
            out[key].append(x)
    return out


def oracle(case, impl):
    t = case.split()
    w, h, n = int(t[2]), int(t[3]), int(t[4])
    it = impl.split()
    if it[1] != "ok":
        return "a format call panicked or a round trip / view consistency assertion failed in the harness"
    f = fields(impl)
    words = [int(x, 16) for x in f["W"]]
    given = [int(x, 16) for x in t[5:5 + n]]
    exp = (given + [0] * (w * h))[:w * h]
    if words != exp:
        return "get_data does not hold the w*h words given to from_vec (resized to w*h)"
    by = [int(x) for x in f["B"]]
    if len(by) != 4 * len(words) or any(by[4 * i:4 * i + 4] != [p & 255, (p >> 8) & 255, (p >> 16) & 255, p >> 24] for i, p in enumerate(words)):
        return "get_data_u8 is not the words' bytes in B,G,R,A order"
    pw, ph = int(f["P"][0]), int(f["P"][1])
    pb = [int(x) for x in f["P"][2:]]
    if (pw, ph) != (w, h) or len(pb) != 4 * w * h:
        return "PNG dimensions are not width x height"
    for i, p in enumerate(words):
        a, r, g, b = p >> 24, (p >> 16) & 255, (p >> 8) & 255, p & 255
        e = [(r * 255 // a) & 255, (g * 255 // a) & 255, (b * 255 // a) & 255, a] if a > 0 else [r, g, b, a]
        if pb[4 * i:4 * i + 4] != e:
            return "PNG pixel %d of word %08x is %s, expected %s (floor(c*255/a), alpha unchanged)" % (i, p, pb[4 * i:4 * i + 4], e)
    a, r, g, b = [int(x) for x in t[7 + n:11 + n]]
    if int(f["U"][0], 16) != (a << 24) | (r << 16) | (g << 8) | b:
        return "SolidSource::to_u32 is not (A<<24)|(R<<16)|(G<<8)|B"
    fa, fr, fg, fb = [int(x) for x in f["F"]]
    if fa != a or fr > fa or fg > fa or fb > fa:
        return "from_unpremultiplied_argb produced a colour that is not premultiplied (r,g,b <= a) or changed alpha"
    return None


def run(ctx):
    if not core.prepare(ctx):
        return core.finish(ctx, rule=RULE)
    core.proof_gate(ctx)
    rng = ctx.rng
    lines, cid = [], 0
    for w in range(0, 7):
        for h in range(0, 7):
            for _ in range(3 if ctx.tier == "quick" else 40):
                lines.append(make_line(rng, cid, w, h)); cid += 1
    for _ in range(400 if ctx.tier == "quick" else 8000):
        lines.append(make_line(rng, cid, rng.randrange(1, 41), rng.randrange(1, 41))); cid += 1
    impl, model, di, dm = core.correspond(lines)
    if dm or len(model) != len(lines):
        ctx.violation("model-died", str(dm), "model driver failed", found_input=False)
    elif di or len(impl) != len(lines):
        ctx.violation("impl-died", lines[min(len(impl), len(lines) - 1)], "the implementation aborted on this case")
    else:
        bad = None
        for l, i in zip(lines, impl):
            note = oracle(l, i)
            if note and (bad is None or len(l) < len(bad[0])):
                bad = (l, i, note)
        mism = [(l, i, m) for l, i, m in zip(lines, impl, model) if core.canon(i) != core.canon(m)]
        ctx.cov["disagreements"] = len(mism)
        if bad:
            ctx.violation("case-%s" % bad[0].split()[1], bad[0] + "\n# impl: " + bad[1][:500], bad[2])
        elif mism:
            l, i, m = min(mism, key=lambda t: len(t[0]))
            ctx.violation("corr-%s" % l.split()[1], l + "\n# correspondence PixelFormat vs DrawTarget views/write_png no longer checks\n# impl:  %s\n# model: %s" % (i[:500], m[:500]),
                          "model and implementation disagree but the statement's oracle found no failing input", found_input=False)
    def nontriv(l):
        t = l.split(); n = int(t[4])
        return any(0 < (int(x, 16) >> 24) < 255 for x in t[5:5 + n])
    distinct = len(set(" ".join(l.split()[2:]) for l in lines if nontriv(l)))
    return core.finish(ctx, rule=RULE, samples=[lines[60][:300], lines[-1][:300]], evaluations=len(lines), distinct=distinct,
                       extra=dict(exhaustive_sizes="0..6 x 0..6"),
                       assumptions=["the PNG container is written by the png crate inside raqote and decoded by the same crate in the harness (trusted)",
                                    "little-endian host"])


def replay(ctx, path):
    lines = [l.strip() for l in open(path) if l.strip() and not l.startswith("#")]
    if not core.prepare(ctx):
        return 1
    impl, model, di, dm = core.correspond(lines, shards=1)
    rc = 0
    for l, i, m in zip(lines, impl, model):
        print("impl : " + i[:300]); print("model: " + m[:300])
        note = oracle(l, i)
        if note or core.canon(i) != core.canon(m):
            print("VIOLATION property=C19 replay=%s%s" % (path, "" if note else " no-failing-input-found")); rc = 1
    return rc
