"""C20 - PathBuilder helpers and Path::transform produce the documented geometry."""
import math
from .. import pathcheck as pc, scene, geom
from ..gen import f32bits as FB, bits_f32
from . import _path

RULE = ("sequences of 0..8 PathBuilder calls (move_to, line_to, quad_to, cubic_to, close, rect) whose finish() is compared with "
        "the model's fold over the calls and with the statement (ops in call order, NonZero); "
        "PathBuilder::rect with finite parameters of every sign (op list compared bit for bit with the model: MoveTo(x,y), "
        "LineTo(x+w,y), LineTo(x+w,y+h), LineTo(x,y+h), Close, NonZero); Path::transform with transforms from the exact "
        "families and general ones on paths of every op kind (bit for bit: every point of every op mapped, order and winding "
        "kept); PathBuilder::arc for any start angle, sweeps of both signs incl. 0 and beyond a full turn, r >= 0, with and "
        "without a current point: the crate's output is checked in f64 against the statement: leading LineTo to the start "
        "point, every curve point within 0.5%% of radius r, angles covered from start to start+sweep in the sweep's direction, "
        "|sweep| > 2pi giving exactly one full circle ending at the start angle; non-trivial = arc with |sweep| > 0.1 or "
        "transform with a non-identity linear part")


def make_lines(rng, n):
    lines = []
    for i in range(n):
        k = i % 4
        if k == 3:
            # a sequence of builder calls: finish() must return their ops in call order, NonZero
            calls = []
            V = lambda: str(FB(rng.choice([rng.randrange(-40, 41) / 4.0, rng.random() * 200 - 100, 0.0])))
            for _ in range(rng.randrange(0, 9)):
                c = rng.choice("mlqczr" + "ll")
                calls.append(c + "".join(" " + V() for _ in range({"m": 2, "l": 2, "q": 4, "c": 6, "z": 0, "r": 4}[c])))
            lines.append("pbuild %d %d %s" % (i, len(calls), " ".join(calls)))
            continue
        if k == 0:
            c = rng.random()
            vals = [rng.randrange(-40, 41) / 4.0 for _ in range(4)] if c < 0.5 else [rng.random() * 200 - 100 for _ in range(4)]
            if rng.random() < 0.1:
                vals[rng.randrange(2, 4)] = 0.0
            lines.append("prect %d %s" % (i, " ".join(str(FB(v)) for v in vals)))
        elif k == 1:
            xf = scene.rand_xf(rng, general=0.6)
            if rng.random() < 0.1:
                # non-invertible (rank 0 / rank 1) and nearly singular transforms still map every point
                xf = rng.choice([(0.0,) * 6, (1.0, 0.0, 0.0, 0.0, 3.0, 3.0), (0.0, 0.0, 0.0, 2.0, 1.0, 0.0), (1.0, 2.0, 2.0, 4.0, 1.0, 1.0),
                                 (0.5, 0.25, 1.0, 0.5, 2.0, 2.0), (1e-23, 0.0, 0.0, 1e-23, 5.0, 5.0), (1e20, 0.0, 0.0, 1e-20, 0.0, 0.0)])
            lines.append("ptransform %d %s %s" % (i, scene.xf_tokens(xf),
                                                  scene.path_tokens(pc.mixed_ops(rng), rng.randrange(2))))
        else:
            x, y = rng.randrange(-40, 160) / 4.0, rng.randrange(-40, 160) / 4.0
            r = rng.choice([0.0, 1.0, 10.0, 0.5, 25.0, rng.random() * 50])
            a0 = rng.choice([0.0, math.pi / 2, math.pi, -math.pi / 2, 1.0, rng.random() * 20 - 10])
            sw = rng.choice([math.pi, -math.pi, 2 * math.pi, -2 * math.pi, 0.0, 7.0, -9.0, 0.1, -0.05, math.pi / 4,
                             rng.random() * 8 - 4, 25.0, -100.0])
            frm = " from %d %d" % (FB(rng.random() * 30), FB(rng.random() * 30)) if rng.random() < 0.4 else ""
            lines.append("parc %d %d %d %d %d %d%s" % (i, FB(x), FB(y), FB(r), FB(a0), FB(sw), frm))
    return lines


def ang_diff(a, b):
    """signed smallest difference a-b"""
    d = math.fmod(a - b, 2 * math.pi)
    if d > math.pi:
        d -= 2 * math.pi
    if d < -math.pi:
        d += 2 * math.pi
    return d


def oracle(aug, impl):
    t = aug.split()
    if t[0] == "ptransform":
        m = [bits_f32(int(v)) for v in t[2:8]]
        w, ops, _ = _path.parse_path(t, 8)
        it = impl.split()
        if it[1] != "ok":
            return "transform panicked"
        w2, tops, _ = _path.parse_path(it, 2)
        if w2 != w or [o[0] for o in ops] != [o[0] for o in tops]:
            return "transform changed the op kinds, their order or the winding rule"
        for o, q in zip(ops, tops):
            for j in range(1, len(o), 2):
                ex = o[j] * m[0] + o[j + 1] * m[2] + m[4]
                ey = o[j] * m[1] + o[j + 1] * m[3] + m[5]
                if not (geom.finite(ex, ey)):
                    continue
                tol = 1e-4 * (1 + abs(ex) + abs(ey) + abs(o[j] * m[0]) + abs(o[j + 1] * m[2]) + abs(o[j] * m[1]) + abs(o[j + 1] * m[3]))
                if abs(q[j] - ex) > tol or abs(q[j + 1] - ey) > tol:
                    return "a point was not mapped by the transform: (%g,%g) -> (%g,%g), expected (%g,%g)" % (o[j], o[j + 1], q[j], q[j + 1], ex, ey)
        return None
    if t[0] == "prect":
        x, y, w_, h = [bits_f32(int(v)) for v in t[2:6]]
        it = impl.split()
        if it[1] != "ok":
            return "rect panicked"
        w2, ops, _ = _path.parse_path(it, 2)
        exp = [("M", x, y), ("L", x + w_, y), ("L", x + w_, y + h), ("L", x, y + h), ("Z",)]
        if w2 != 0 or len(ops) != 5 or any(a[0] != b[0] or any(abs(u - v) > 1e-4 * (1 + abs(v)) for u, v in zip(a[1:], b[1:])) for a, b in zip(ops, exp)):
            return "rect did not produce the closed rectangle with corners (x,y) and (x+w,y+h)"
        return None
    if t[0] == "pbuild":
        it = impl.split()
        if it[1] != "ok":
            return "a PathBuilder call panicked"
        w2, ops, _ = _path.parse_path(it, 2)
        f32 = lambda v: bits_f32(FB(v))
        exp, j = [], 3
        for _ in range(int(t[2])):
            c = t[j]; j += 1
            nv = {"m": 2, "l": 2, "q": 4, "c": 6, "z": 0, "r": 4}[c]
            v = [bits_f32(int(z)) for z in t[j:j + nv]]; j += nv
            if c == "r":
                x, y, w_, h = v
                exp += [("M", x, y), ("L", f32(x + w_), y), ("L", f32(x + w_), f32(y + h)), ("L", x, f32(y + h)), ("Z",)]
            else:
                exp.append(({"m": "M", "l": "L", "q": "Q", "c": "C", "z": "Z"}[c],) + tuple(v))
        same = lambda a, b: len(a) == len(b) and a[0] == b[0] and all(FB(u) == FB(w) or (u != u and w != w) for u, w in zip(a[1:], b[1:]))
        if w2 != 0 or len(ops) != len(exp) or not all(same(a, b) for a, b in zip(ops, exp)):
            return "finish() did not return the ops of the calls in call order with NonZero winding"
        return None
    if t[0] != "parc":
        return "skip"
    x, y, r, a0, sw = [bits_f32(int(v)) for v in t[2:7]]
    has_from = len(t) > 7
    it = impl.split()
    if it[1] != "ok":
        return "arc panicked"
    w, ops, _ = _path.parse_path(it, 2)
    if w != 0:
        return "finish() must give NonZero winding"
    k = 0
    if has_from:
        if not ops or ops[0][0] != "M":
            return "the MoveTo issued before arc() is missing"
        k = 1
    if len(ops) <= k or ops[k][0] != "L":
        return "arc must first draw a line to the arc's starting point"
    sx, sy = x + r * math.cos(a0), y + r * math.sin(a0)
    eps = 1e-3 * (r + 1) + 1e-5 * (abs(x) + abs(y))
    if math.hypot(ops[k][1] - sx, ops[k][2] - sy) > eps:
        return "the line before the arc does not go to the point at the start angle"
    quads = ops[k + 1:]
    if any(o[0] != "Q" for o in quads):
        return "arc emitted something else than quadratic curves"
    struct_note = None
    if sw == sw:
        # the number of curves the model's transcription of the arc gives (PathShape.arc_nsteps, theorem C20_arc_structure):
        # ceil(min(|sweep|, 2 pi) / (pi/4)) evaluated in binary32
        f32 = lambda v: bits_f32(FB(v))
        two_pi, quarter = f32(bits_f32(1078530011) * 2.0), bits_f32(1061752795)
        qv = f32(min(abs(sw), two_pi) / quarter)
        kq = int(math.ceil(qv)) if qv == qv and abs(qv) != float("inf") else 0
        if len(quads) != kq:
            struct_note = "CORR: arc emitted %d curves where the model's arc_nsteps gives %d" % (len(quads), kq)
    eff = max(-2 * math.pi, min(2 * math.pi, sw))
    cur = (ops[k][1], ops[k][2])
    total = 0.0
    for o in quads:
        c, e = (o[1], o[2]), (o[3], o[4])
        for j in range(17):
            p = geom.quad(cur, c, e, j / 16.0)
            d = math.hypot(p[0] - x, p[1] - y)
            if abs(d - r) > 0.005 * r + eps:
                return "a point of the arc is not within 0.5%% of the radius (distance %.4f, r %.4f)" % (d, r)
        if r > 1e-3:
            a1 = math.atan2(cur[1] - y, cur[0] - x); a2 = math.atan2(e[1] - y, e[0] - x)
            step = ang_diff(a2, a1)
            if abs(step) > math.pi / 2 + 0.02:
                return "an arc segment spans more than a quarter turn"
            if eff != 0 and step * eff < -1e-3:
                return "the arc turns against the sign of the sweep"
            total += step
        cur = e
    if r > 1e-3:
        if abs(total - eff) > 2e-2 + 1e-3 * abs(a0):
            return "the arc covers %.4f rad but the (clamped) sweep is %.4f" % (total, eff)
        ex, ey = x + r * math.cos(a0 + eff), y + r * math.sin(a0 + eff)
        if math.hypot(cur[0] - ex, cur[1] - ey) > eps + 2e-3 * r * (1 + abs(a0) * 1e-2):
            return "the arc does not end at the angle start + sweep (one full turn at most)"
    return struct_note


def nontrivial(aug, impl):
    t = aug.split()
    if t[0] == "parc":
        return abs(bits_f32(int(t[6]))) > 0.1
    if t[0] == "ptransform":
        return t[2:6] != [str(FB(1.0)), str(FB(0.0)), str(FB(0.0)), str(FB(1.0))]
    return True


ASSUME = ["lyon_geom's arc approximation is an oracle checked numerically (f64, 17 samples per segment); angles in f32 carry "
          "an absolute error that grows with |start angle| (tolerance widened accordingly)"]


def run(ctx):
    return _path.run_property(ctx, make_lines, RULE, oracle, ASSUME, nontrivial, 8000, 90000,
                              "PathOps.builder_rect / path_transform / PathShape.b_run vs PathBuilder::rect / Path::transform / PathBuilder")


def replay(ctx, path):
    return _path.replay(ctx, path, oracle, "PathOps.builder_rect / path_transform / PathShape.b_run vs PathBuilder::rect / Path::transform / PathBuilder")
