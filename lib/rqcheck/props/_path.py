"""Common driver of the path-engine property checks."""
import os
from .. import core, pathcheck as pc


def corpus(pid, tier="quick"):
    return core.corpus(pid, tier)


def run_property(ctx, make_lines, rule, oracle, assumptions, nontrivial, n_quick, n_thorough, name_of_corr):
    """oracle(aug_line, impl_line) -> note (string) when the implementation's output violates the property's
    statement on this input, None when it is fine, or the string 'skip' when the oracle does not apply."""
    if not core.prepare(ctx):
        return core.finish(ctx, rule=rule)
    core.proof_gate(ctx)
    n = n_quick if ctx.tier == "quick" else n_thorough
    lines = make_lines(ctx.rng, n) if n == 0 else corpus(ctx.pid, ctx.tier) + make_lines(ctx.rng, n)
    try:
        aug, impl, model = pc.run(lines)
    except RuntimeError as e:
        ctx.violation("impl-died", str(e), "the implementation aborted (or the harness failed) on a case")
        return core.finish(ctx, rule=rule, evaluations=len(lines))
    evaluate(ctx, aug, impl, model, oracle, name_of_corr)
    distinct = len(set(" ".join(a.split()[2:]) for a, i in zip(aug, impl) if nontrivial(a, i)))
    kinds = {}
    for a in aug:
        k = a.split()[0]
        kinds[k] = kinds.get(k, 0) + 1
    return core.finish(ctx, rule=rule, samples=[aug[len(aug) // 2][:500], aug[-1][:500]], evaluations=len(lines),
                       distinct=distinct, extra=dict(case_kinds=kinds), assumptions=assumptions)


def evaluate(ctx, aug, impl, model, oracle, name_of_corr):
    # the statement itself, evaluated on every implementation output
    worst = None
    corr = []       # notes 'CORR: ...': the output differs from what the model's closed form gives though the statement holds
    for a, i in zip(aug, impl):
        t = i.split()
        if len(t) >= 2 and t[1] in ("panic", "hang"):
            note = "the call %s" % ("panicked" if t[1] == "panic" else "did not return (hang)")
            m = model[aug.index(a)] if False else None
        else:
            try:
                note = oracle(a, i)
            except Exception as e:      # a case line the oracle cannot read must not take the whole check down
                ctx.notes.append("oracle could not judge case %s: %r" % (a.split()[1] if len(a.split()) > 1 else "?", e))
                note = None
        if note and note.startswith("CORR:"):
            corr.append((a, i, note[5:].strip()))
            continue
        if note and note != "skip":
            if worst is None or len(a) < len(worst[0]):
                worst = (a, i, note)
    mism = [(a, i, m) for a, i, m in zip(aug, impl, model) if m is not None and pc.canon(i) != pc.canon(m)]
    ctx.cov["disagreements"] = len(mism)
    # a panic that the model predicts too (out-of-domain input such as a curve handed to dash_path) is agreement
    if worst:
        a, i, note = worst
        mm = [m for (x, _, m) in mism if x == a]
        if i.split()[1] in ("panic",) and not mm:
            worst = None
    if worst:
        a, i, note = worst
        ctx.violation("case-%s" % a.split()[1], a + "\n# impl: " + i[:600], note)
        return
    if corr and not mism:
        a, i, note = min(corr, key=lambda t: len(t[0]))
        ctx.violation("corr-%s" % a.split()[1], a + "\n# correspondence %s no longer checks (%d cases)\n# impl:  %s" % (name_of_corr, len(corr), i[:600]),
                      note + " (the statement's oracle found no failing input)", found_input=False)
        return
    if mism:
        a, i, m = min(mism, key=lambda t: len(t[0]))
        ctx.violation("corr-%s" % a.split()[1],
                      a + "\n# correspondence %s no longer checks (%d of %d cases disagree)\n# impl:  %s\n# model: %s"
                      % (name_of_corr, len(mism), len(aug), i[:600], m[:600]),
                      "model and implementation disagree on %d case(s) but the statement's oracle found no failing input"
                      % len(mism), found_input=False)


def replay(ctx, path, oracle, name_of_corr):
    lines = [l.strip() for l in open(path) if l.strip() and not l.startswith("#")]
    if not core.prepare(ctx):
        return 1
    aug, impl, model = pc.run(lines)
    evaluate(ctx, aug, impl, model, oracle, name_of_corr)
    for a, i, m in zip(aug, impl, model):
        print("impl : " + i[:400]); print("model: " + str(m)[:400])
    for pth, note, found in ctx.violations:
        print("VIOLATION property=%s replay=%s%s" % (ctx.pid, path, "" if found else " no-failing-input-found"))
    return 1 if ctx.violations else 0


def parse_path(tokens, i):
    """parse 'P w n ops...' starting at tokens[i]; returns (winding, ops, next index); ops as tuples of floats"""
    from ..gen import bits_f32 as F
    assert tokens[i] == "P", tokens[i:i + 3]
    w, n = int(tokens[i + 1]), int(tokens[i + 2])
    i += 3
    ops = []
    for _ in range(n):
        k = tokens[i]; i += 1
        if k in ("M", "L"):
            ops.append((k, F(int(tokens[i])), F(int(tokens[i + 1])))); i += 2
        elif k == "Q":
            ops.append((k,) + tuple(F(int(x)) for x in tokens[i:i + 4])); i += 4
        elif k == "C":
            ops.append((k,) + tuple(F(int(x)) for x in tokens[i:i + 6])); i += 6
            assert tokens[i] == "K"
            kq = int(tokens[i + 1]); i += 2 + 6 * kq
        elif k == "Z":
            ops.append((k,))
    return w, ops, i
