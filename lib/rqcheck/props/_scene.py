"""Common driver of the scene-based property checks."""
import os
from .. import core, scene, scenecheck as sc, gen


def corpus(pid, tier="quick"):
    return core.corpus(pid, tier)


def stats(lines):
    kinds, modes, dims = {}, {}, {}
    for l in lines:
        hdr, ops = scene.split_ops(l)
        for o in ops:
            t = o.split()
            kinds[t[0]] = kinds.get(t[0], 0) + 1
    return dict(op_kinds=kinds)


def run_property(ctx, cfg, n_quick, n_thorough, rule, concrete, assumptions, nontrivial=None,
                 extra_lines=None, post=None, known_classes=None, search=None):
    """concrete(sr, i, k, cls, diffinfo) -> note or None : is the disagreement of case i at op k, classified cls
    (dict frame/formula/cov/other + clipdiff/idlediff/panic), a concrete failing input of THIS property?
    post(ctx, sr): extra oracles evaluated on all cases. known_classes(model_err) -> known-finding label or None."""
    if not core.prepare(ctx):
        return core.finish(ctx, rule=rule)
    core.proof_gate(ctx)
    n = n_quick if ctx.tier == "quick" else n_thorough
    lines = corpus(ctx.pid, ctx.tier) + [scene.rand_scene(ctx.rng, i, cfg) for i in range(n)]
    if extra_lines:
        lines += extra_lines(ctx, len(lines))
    try:
        sr = sc.run(lines)
    except sc.ImplDied as e:
        ctx.violation("impl-died", str(e), "the implementation aborted or hung on this case")
        return core.finish(ctx, rule=rule, evaluations=len(lines))
    evaluate(ctx, sr, concrete, post, known_classes, search)
    nt = nontrivial or default_nontrivial
    distinct = len(set(" ".join(sr.cases[i].split()[2:]) for i in range(len(lines)) if nt(sr, i)))
    st = stats(lines)
    nops = sum(len(r) for r in sr.impl)
    return core.finish(ctx, rule=rule, samples=[lines[len(lines) // 2][:600], lines[-1][:600]],
                       evaluations=len(lines), distinct=distinct,
                       extra=dict(ops_executed=nops, **st), assumptions=assumptions)


def default_nontrivial(sr, i):
    """a scene is non-trivial when at least one drawing op changed at least one pixel and left another unchanged"""
    hdr, ops = scene.split_ops(sr.aug[i])
    prev = None
    for k, r in enumerate(sr.model[i]):
        if r.panic:
            break
        if r.region and "1" in r.region and "0" in r.region:
            return True
    return False


def diff_info(sr, i, k):
    a = sr.impl[i][k] if k < len(sr.impl[i]) else None
    b = sr.model[i][k] if k < len(sr.model[i]) else None
    info = dict(panic=False, clipdiff=False, idlediff=False, model_err=None)
    if a is None or b is None:
        info["panic"] = True
        return info
    if b.panic:
        info["model_err"] = b.raw
    if a.panic != b.panic:
        info["panic"] = True
        return info
    if a.panic:
        return info
    pa, pb = a.parse(), b.parse()
    info["clipdiff"] = pa["clip"] != pb["clip"]
    info["idlediff"] = pa["idle"] != pb["idle"]
    info["layerrect"] = (pa["layer"] or [None])[0] != (pb["layer"] or [None])[0]
    return info


def evaluate(ctx, sr, concrete, post=None, known_classes=None, search=None):
    mism = [(i, sr.first_diff(i)) for i in range(len(sr.cases))]
    mism = [(i, k) for i, k in mism if k is not None]
    ctx.cov["disagreements"] = len(mism)
    # model-predicted panics (known dependency defects) are counted, not compared
    errs = {}
    for i in range(len(sr.cases)):
        for r in sr.model[i]:
            if r.panic:
                errs[r.raw] = errs.get(r.raw, 0) + 1
    ctx.cov["model_predicted_panics"] = errs
    if post:
        post(ctx, sr)
    if ctx.violations:
        return
    if not mism:
        return
    cls = sc.classify(sr, [i for i, _ in mism[:400]])
    found = None
    for i, k in mism[:400]:
        c = dict(cls.get(i, {}))
        c.update(diff_info(sr, i, k))
        hdr, ops = scene.split_ops(sr.aug[i])
        note = concrete(sr, i, k, c, ops[k] if k < len(ops) else "")
        if note:
            if found is None or len(sr.aug[i]) < len(sr.aug[found[0]]):
                found = (i, k, note)
    if found:
        i, k, note = found
        ctx.violation("case-%s" % sr.cases[i].split()[1], sc.truncate_case(sr.aug[i], k),
                      "%s (op %d: %s)\n# impl:  %s\n# model: %s" % (
                          note, k, scene.split_ops(sr.aug[i])[1][k][:80],
                          sr.impl[i][k].raw[:300] if k < len(sr.impl[i]) else "-",
                          sr.model[i][k].raw[:300] if k < len(sr.model[i]) else "-"))
    elif search and search(ctx, sr, mism):
        pass        # the directed search turned the broken correspondence into a failing input of this property
    else:
        i, k = min(mism, key=lambda t: len(sr.aug[t[0]]))
        ctx.violation("corr-%s" % sr.cases[i].split()[1],
                      sc.truncate_case(sr.aug[i], k) + "\n# correspondence Target.step_op vs DrawTarget no longer checks (%d of %d scenes disagree)"
                      "\n# impl:  %s\n# model: %s" % (len(mism), len(sr.cases),
                                                     sr.impl[i][k].raw[:300] if k < len(sr.impl[i]) else "-",
                                                     sr.model[i][k].raw[:300] if k < len(sr.model[i]) else "-"),
                      "model and implementation disagree on %d scene(s) but no input violating this property's statement was found"
                      % len(mism), found_input=False)


def replay(ctx, path, concrete, post=None):
    lines = [l.strip() for l in open(path) if l.strip() and not l.startswith("#")]
    if not core.prepare(ctx):
        return 1
    sr = sc.run(lines)
    evaluate(ctx, sr, concrete, post)
    for i in range(len(lines)):
        k = sr.first_diff(i)
        print("case %s: first differing op: %s" % (lines[i].split()[1], k))
        if k is not None:
            print(" impl : " + (sr.impl[i][k].raw[:400] if k < len(sr.impl[i]) else "-"))
            print(" model: " + (sr.model[i][k].raw[:400] if k < len(sr.model[i]) else "-"))
    for pth, note, found in ctx.violations:
        print("VIOLATION property=%s replay=%s%s" % (ctx.pid, path, "" if found else " no-failing-input-found"))
    return 1 if ctx.violations else 0
