"""Scene cases: random operation histories on one DrawTarget, in the text format shared by the
Rust harness (harness/src/scene.rs) and the OCaml driver (ocaml/driver.ml)."""
import math
from . import gen
from .gen import f32bits

FB = f32bits


def fpt(x, y):
    return "%d %d" % (FB(x), FB(y))


# ---------------- transforms (exactly representable families + general) ----------------
def xf_tokens(m):
    return " ".join(str(FB(v)) for v in m)

IDENT = (1.0, 0.0, 0.0, 1.0, 0.0, 0.0)


def rand_xf(rng, general=0.25):
    c = rng.random()
    if c < 0.30:
        return IDENT
    if c < 0.45:
        return (1.0, 0.0, 0.0, 1.0, float(rng.randrange(-6, 7)), float(rng.randrange(-6, 7)))
    if c < 0.55:
        return (1.0, 0.0, 0.0, 1.0, rng.randrange(-24, 25) / 4.0, rng.randrange(-24, 25) / 4.0)
    if c < 0.65:
        s = rng.choice([0.5, 2.0, 0.25, 4.0, 1.5, -1.0])
        t = rng.choice([0.5, 2.0, 1.0, 1.0, -1.0])
        return (s, 0.0, 0.0, t, float(rng.randrange(-4, 8)), float(rng.randrange(-4, 8)))
    if c < 0.72:
        # quarter turns
        k = rng.randrange(4)
        co, si = [(1, 0), (0, 1), (-1, 0), (0, -1)][k]
        return (float(co), float(si), float(-si), float(co), float(rng.randrange(0, 10)), float(rng.randrange(0, 10)))
    if c < 0.70:
        return (1.0, rng.choice([0.5, -0.25, 0.0]), rng.choice([0.5, 0.25, -0.5]), 1.0, 0.0, 0.0)
    if c < 0.75:
        # the round decimal numbers people type (zoom 1.1, 2.5, 0.3 ...; offsets in tenths): not representable in binary,
        # and their products with grid coordinates land within an ulp of the quarter-pixel boundaries
        sx = rng.choice([1.1, 0.3, 2.5, 1.25, 0.7, 1.5, 0.1, 3.3, 0.9, 1.2])
        sy = sx if rng.random() < 0.6 else rng.choice([1.1, 0.3, 2.5, 0.7, 1.0, -1.1])
        return (sx, 0.0, 0.0, sy, rng.randrange(-30, 60) / 10.0, rng.randrange(-30, 60) / 10.0)
    if c < 0.78:
        # a shear along one axis only, by a whole or half number, with an integer translation: integer points often map
        # to integer points although the transform is no translation / scale
        k = rng.choice([1.0, -1.0, 2.0, 0.5, -0.5])
        tx, ty = float(rng.randrange(-3, 4)), float(rng.randrange(-3, 4))
        s_ = rng.choice([1.0, 1.0, 2.0])
        return (s_, 0.0, k, 1.0, tx, ty) if rng.random() < 0.5 else (1.0, k, 0.0, s_, tx, ty)
    if c < 0.78 + general * 0.8:
        a = rng.random() * 6.283
        s = 0.3 + rng.random() * 2
        t = 0.3 + rng.random() * 2
        return (math.cos(a) * s, math.sin(a) * s, -math.sin(a) * t, math.cos(a) * t,
                rng.random() * 12 - 3, rng.random() * 12 - 3)
    # singular
    return rng.choice([(0.0, 0.0, 0.0, 0.0, 0.0, 0.0), (1.0, 2.0, 2.0, 4.0, 1.0, 1.0), (1.0, 0.0, 0.0, 0.0, 3.0, 3.0)])


# ---------------- paths ----------------
def q(v):
    """quarter grid value"""
    return v / 4.0


def grid_polygon(rng, W, H, allow_outside=True):
    """1-3 subpaths with quarter-grid vertices, around the surface"""
    ops = []
    if rng.random() < 0.05:
        ops.append("Z")
    for _ in range(rng.choice([1, 1, 1, 2, 3])):
        n = rng.randrange(3, 7)
        lo, hix, hiy = (-2 * 4, (W + 2) * 4, (H + 2) * 4) if allow_outside and rng.random() < 0.5 else (0, W * 4, H * 4)
        pts = [(q(rng.randrange(lo, hix + 1)), q(rng.randrange(lo, hiy + 1))) for _ in range(n)]
        c = rng.random()
        if c < 0.25:
            # axis aligned box on the pixel grid or quarter grid
            x0, y0 = pts[0]; x1, y1 = pts[1]
            if rng.random() < 0.5:
                x0, y0, x1, y1 = map(round, (x0, y0, x1, y1))
            pts = [(x0, y0), (x1, y0), (x1, y1), (x0, y1)]
        ops.append(("M " if rng.random() < 0.93 else "L ") + fpt(*pts[0]))
        for p in pts[1:]:
            ops.append("L " + fpt(*p))
        if rng.random() < 0.6:
            ops.append("Z")
    return ops


def hull_curve_path(rng, W, H):
    """a flat quadratic that runs far in x over a fraction of a pixel in y and ends with a vertical tangent exactly on the
    path's left (or right) extreme, closed by straight edges on the other side: the curve's sample-row crossings must stay
    inside the path's bounds (the rasteriser sizes its coverage mask by them)"""
    left = rng.random() < 0.5
    y0 = q(rng.randrange(-6, max(1, H * 4)))
    a = q(rng.choice([1, 2, 2, 2, 3, rng.randrange(1, 6)])); b = a + q(rng.choice([1, 1, 1, 2, rng.randrange(1, 6)]))
    span = q(rng.randrange(min(24, (W + 1) * 4), max(25, (W + 3) * 4)))
    far = span + q(rng.randrange(0, 12))
    xe = q(rng.randrange(-4, max(1, W * 2))) if left else q(rng.randrange(W * 2, (W + 1) * 4))
    if rng.random() < 0.7:      # extreme exactly on a pixel boundary: any overshoot leaves the bounds
        xe = float(rng.randrange(0, max(1, W // 2 + 1))) if left else float(rng.randrange(W // 2, W + 1))
    sg = 1 if left else -1
    xs, xf = xe + sg * span, xe + sg * far
    if rng.random() < 0.3:      # off the quarter grid
        xs += sg * rng.random() * 0.2; y0 += rng.random() * 0.2
    # control point: on the extreme (vertical tangent at the end) or anywhere between (the curve arrives at a shallow angle)
    xc = xe if rng.random() < 0.7 else xe + (xs - xe) * rng.choice([0.25, 0.5, 0.75, rng.random()])
    ops = ["M " + fpt(xs, y0), "Q %s %s" % (fpt(xc, y0 + a), fpt(xe, y0 + b)), "L " + fpt(xf, y0 + b), "L " + fpt(xf, y0), "Z"]
    if rng.random() < 0.3:      # the same curve walked upwards
        ops = ["M " + fpt(xe, y0 + b), "Q %s %s" % (fpt(xc, y0 + a), fpt(xs, y0)), "L " + fpt(xf, y0), "L " + fpt(xf, y0 + b), "Z"]
    return ops


def curvy_path(rng, W, H):
    if rng.random() < 0.15:
        return hull_curve_path(rng, W, H)
    ops = []
    def P():
        return (q(rng.randrange(-8, (W + 2) * 4)), q(rng.randrange(-8, (H + 2) * 4)))
    if rng.random() < 0.08:
        ops.append("Z")                      # a path may start with Close (PathBuilder::close() first)
    for _ in range(rng.choice([1, 1, 2])):
        if rng.random() < 0.85:
            ops.append("M " + fpt(*P()))
        for _ in range(rng.randrange(1, 5)):
            c = rng.random()
            if c < 0.35:
                ops.append("L " + fpt(*P()))
            elif c < 0.75:
                ops.append("Q %s %s" % (fpt(*P()), fpt(*P())))
            else:
                a, b, e = P(), P(), P()
                d = rng.random()
                if d < 0.05:
                    b = a                    # coincident control points
                elif d < 0.08:
                    b = e
                ops.append("C %s %s %s K 0" % (fpt(*a), fpt(*b), fpt(*e)))
        if rng.random() < 0.5:
            ops.append("Z")
            if rng.random() < 0.3:
                ops.append("L " + fpt(*P()))
    return ops


def path_tokens(ops, winding):
    return "P %d %d %s" % (winding, len(ops), " ".join(ops))


def rand_path(rng, W, H, curves=0.3):
    ops = curvy_path(rng, W, H) if rng.random() < curves else grid_polygon(rng, W, H)
    return path_tokens(ops, rng.randrange(2))


# ---------------- sources ----------------
BIG_IMAGES = [(17, 3), (3, 33), (64, 2), (2, 70), (300, 1), (1, 260), (16, 16), (9, 9)]


def image_tokens(rng, maxdim=5):
    w, h = rng.randrange(1, maxdim + 1), rng.randrange(1, maxdim + 1)
    if rng.random() < 0.06:
        w, h = rng.choice(BIG_IMAGES)      # past 8 / 16 / 64 / 256 texels in one direction
    return "%d %d %s" % (w, h, " ".join(gen.hexpx(gen.premul_pixel(rng)) for _ in range(w * h)))


def unpremul_color(rng):
    c = rng.random()
    a = 255 if c < 0.5 else (0 if c < 0.55 else rng.randrange(256))
    return (a << 24) | (rng.randrange(256) << 16) | (rng.randrange(256) << 8) | rng.randrange(256)


def stops_tokens(rng):
    n = rng.randrange(1, 6)
    pos = sorted(rng.choice([0.0, 1.0, 0.5, 0.25, rng.random(), rng.random()]) for _ in range(n))
    if rng.random() < 0.05:
        pos[rng.randrange(n)] = rng.choice([-0.5, 1.5])
    return "%d %s" % (n, " ".join("%d %s" % (FB(p), gen.hexpx(unpremul_color(rng))) for p in pos))


def rand_source(rng, W, H, kinds=None):
    k = rng.choice(kinds or ["solid", "solid", "solid", "image", "image", "linear", "radial", "linearc", "radialc",
                             "twocirclec", "sweepc"])
    sp = rng.choice(["pad", "reflect", "repeat"])
    if k == "solid":
        return "solid " + gen.hexpx(gen.premul_pixel(rng))
    if k == "image":
        t = rand_xf(rng, general=0.5)
        if t[0] * t[3] - t[1] * t[2] == 0:
            t = IDENT
        if rng.random() < 0.25:
            # the image's own transform is the identity or an integer translation: whether the shader may take the
            # integer-offset route must be decided on the COMBINED transform (current transform included)
            t = rng.choice([IDENT, (1.0, 0.0, 0.0, 1.0, float(rng.randrange(-3, 4)), float(rng.randrange(-3, 4)))])
        elif rng.random() < 0.06:
            # the image sampled hundreds or thousands of texels away from its origin (Pad: the edge texel, Repeat: many periods)
            far = lambda: rng.choice([-1, 1]) * rng.choice([100.0, 257.0, 1000.0, 3000.0]) + rng.choice([0.0, 0.5, 0.25])
            t = (t[0], t[1], t[2], t[3], far(), far()) if rng.random() < 0.5 else (1.0, 0.0, 0.0, 1.0, far(), far())
        return "image %s %s %s %s" % (image_tokens(rng), rng.choice(["pad", "repeat"]), rng.choice(["bilinear", "nearest"]),
                                      xf_tokens(t))
    if k == "linear":
        s = rng.choice([16.0, 32.0, 8.0, 256.0, 3.0])
        return "linear %s %s %s" % (stops_tokens(rng), sp, xf_tokens((1.0 / s, 0.0, rng.choice([0.0, 0.5 / s]), 1.0 / s, 0.0, 0.0)))
    if k == "radial":
        s = rng.choice([16.0, 32.0, 8.0, 5.0])
        return "radial %s %s %s" % (stops_tokens(rng), sp, xf_tokens((1.0 / s, 0.0, 0.0, 1.0 / s, -0.25, -0.25)))
    def P():
        return (float(rng.randrange(-2, W + 3)), float(rng.randrange(-2, H + 3)))
    if k == "linearc":
        a, b = P(), P()
        if rng.random() < 0.3:
            # long or steep gradient vectors: the parameter advances by less than 1/256 per pixel along a row
            d = rng.choice([(300.0, 0.0), (1000.0, 0.0), (10.0, 100.0), (3.0, 400.0), (1.0, 1000.0), (-500.0, 20.0), (0.0, 300.0)])
            b = (a[0] + d[0], a[1] + d[1])
        return "linearc %s %s %s %s" % (stops_tokens(rng), sp, fpt(*a), fpt(*b))
    if k == "radialc":
        return "radialc %s %s %s %d" % (stops_tokens(rng), sp, fpt(*P()), FB(float(rng.randrange(1, 12))))
    if k == "twocirclec":
        c1 = P(); r1 = float(rng.randrange(0, 4)); r2 = r1 + float(rng.randrange(1, 8))
        c2 = (c1[0] + rng.choice([0.0, 0.5, 1.0]), c1[1] + rng.choice([0.0, 0.5]))
        return "twocirclec %s %s %s %d %s %d" % (stops_tokens(rng), sp, fpt(*c1), FB(r1), fpt(*c2), FB(r2))
    a0 = rng.choice([0.0, 0.0, 90.0, 45.0])
    return "sweepc %s %s %s %d %d" % (stops_tokens(rng), sp, fpt(*P()), FB(a0), FB(a0 + rng.choice([360.0, 180.0, 90.0])))


def rand_opts(rng, modes=None, aa=None):
    m = rng.choice(modes) if modes else (3 if rng.random() < 0.35 else rng.randrange(gen.N_MODES))
    return "%d %d %d" % (m, gen.alpha_bits(rng), (1 if rng.random() < 0.8 else 0) if aa is None else aa)


def style_tokens(rng):
    w = rng.choice([1.0, 2.0, 0.5, 3.0, 1.5, rng.random() * 4 + 0.1])
    cap = rng.choice(["butt", "round", "square"])
    join = rng.choice(["miter", "round", "bevel"])
    ml = rng.choice([10.0, 1.0, 2.0, 4.0, 0.0])
    if rng.random() < 0.3:
        n = rng.randrange(1, 5)
        dashes = [rng.choice([1.0, 2.0, 0.5, 3.0, 1.5]) for _ in range(n)]
        off = rng.choice([0.0, 0.5, 1.0, -1.0, 7.0])
    else:
        dashes, off = [], 0.0
    return "STYLE %d %s %s %d %d %s %d" % (FB(w), cap, join, FB(ml), len(dashes), " ".join(str(FB(d)) for d in dashes), FB(off))


# ---------------- ops ----------------
def rand_rect(rng, W, H):
    c = rng.random()
    x0, y0 = rng.randrange(-2, W + 1), rng.randrange(-2, H + 1)
    if c < 0.75:
        return (x0, y0, x0 + rng.randrange(1, W + 3), y0 + rng.randrange(1, H + 3))
    if c < 0.85:
        return (x0, y0, x0 - rng.randrange(0, 3), y0 + 2)       # inverted / empty
    if c < 0.92:
        return (-3, -3, W + 5, H + 5)                            # larger than the surface
    return (W + 2, H + 1, W + 6, H + 4)                          # off surface


def draw_op(rng, W, H, cfg):
    kinds = cfg.get("draw_kinds") or ["fill", "fill", "fill", "fillrect", "fillrect", "stroke", "clear", "mask",
                                      "drawimage", "drawimagesize"]
    k = rng.choice(kinds)
    src = lambda: rand_source(rng, W, H, cfg.get("sources"))
    opts = lambda: rand_opts(rng, cfg.get("modes"), cfg.get("aa"))
    if k == "fill":
        return "fill %s %s %s" % (rand_path(rng, W, H, cfg.get("curves", 0.3)), src(), opts())
    if k == "stroke":
        return "stroke %s %s SRC %s %s" % (rand_path(rng, W, H, 0.4), style_tokens(rng), src(), opts())
    if k == "fillrect":
        if rng.random() < 0.7:
            x, y = float(rng.randrange(-3, W + 1)), float(rng.randrange(-3, H + 1))
            w, h = float(rng.randrange(-2, W + 4)), float(rng.randrange(-2, H + 4))
        else:
            x, y, w, h = q(rng.randrange(-8, 4 * W)), q(rng.randrange(-8, 4 * H)), q(rng.randrange(0, 4 * W + 8)), q(rng.randrange(0, 4 * H + 8))
        return "fillrect %d %d %d %d %s %s" % (FB(x), FB(y), FB(w), FB(h), src(), opts())
    if k == "clear":
        return "clear " + gen.hexpx(gen.premul_pixel(rng))
    if k == "mask":
        mw, mh = rng.randrange(1, W + 3), rng.randrange(1, H + 3)
        data = [rng.choice([0, 255, 255, rng.randrange(256)]) for _ in range(mw * mh)]
        return "mask %s %d %d %d %d %s" % (src(), rng.randrange(-3, W + 1), rng.randrange(-3, H + 1), mw, mh,
                                           " ".join(map(str, data)))
    if k == "surf":
        # copy_surface / blend_surface / blend_surface_with_alpha of a small source surface (device space, no clip)
        sw, sh = rng.randrange(1, 6), rng.randrange(1, 6)
        simg = "%d %d %s" % (sw, sh, " ".join(gen.hexpx(gen.premul_pixel(rng)) for _ in range(sw * sh)))
        kk = rng.choice(["copy 0", "blend %d" % rng.randrange(24), "alpha %d" % gen.alpha_bits(rng), "alpha %d" % gen.alpha_bits(rng)])
        x0, y0 = rng.randrange(-1, 3), rng.randrange(-1, 3)
        return "surf %s %s %d %d %d %d %d %d" % (kk, simg, x0, y0, x0 + rng.randrange(1, 7), y0 + rng.randrange(1, 7),
                                                 rng.randrange(-2, W), rng.randrange(-2, H))
    if k == "drawimage":
        c = rng.random()
        x, y = (float(rng.randrange(-3, W + 1)), float(rng.randrange(-3, H + 1))) if c < 0.7 else (q(rng.randrange(-8, 4 * W)), q(rng.randrange(-8, 4 * H)))
        return "drawimage %d %d %s %s" % (FB(x), FB(y), image_tokens(rng), opts())
    x, y = float(rng.randrange(-2, W)), float(rng.randrange(-2, H))
    return "drawimagesize %d %d %d %d %s %s" % (FB(float(rng.randrange(1, W + 3))), FB(float(rng.randrange(1, H + 3))),
                                                 FB(x), FB(y), image_tokens(rng), opts())


def structured_ops(rng, W, H, cfg):
    """clip rect at an offset / clip path / transform in any order, then 0-2 nested layers, 1-3 draws, pops:
    the combinations that index arithmetic bugs need (layer origin != 0 under a clip path, nested layers...)"""
    if rng.random() < 0.12 and W >= 3 and H >= 3:
        # a layer pushed under a small clip rectangle that is popped while the layer is still open: the clip in force
        # is then larger than the layer, and whatever is drawn must stay inside the layer's own rows and columns
        x0, y0 = rng.randrange(0, W - 1), rng.randrange(0, H - 1)
        x1, y1 = rng.randrange(x0 + 1, W + 1), rng.randrange(y0 + 1, H + 1)
        ops = ["cliprect %d %d %d %d" % (x0, y0, x1, y1),
               "layer %d %d" % (gen.alpha_bits(rng), 3 if rng.random() < 0.5 else rng.randrange(gen.N_MODES)), "popclip"]
        for _ in range(rng.randrange(1, 3)):
            if rng.random() < 0.5:
                ops.append("fillrect %d %d %d %d %s %s" % (FB(float(rng.randrange(-2, 2))), FB(float(rng.randrange(-2, H))), FB(float(W + 4)),
                                                         FB(float(rng.randrange(1, 3))), rand_source(rng, W, H, cfg.get("sources")),
                                                         rand_opts(rng, cfg.get("modes"))))
            else:
                ops.append(draw_op(rng, W, H, cfg))
        ops.append("poplayer")
        return ops
    if rng.random() < 0.08:
        # one transform (never the identity), then drawing calls with nothing else in the way: no clip, no layer, so every
        # transform-dependent short cut of the drawing calls is taken
        t = rand_xf(rng)
        while t == IDENT:
            t = rand_xf(rng)
        ops = ["xf " + xf_tokens(t)]
        for _ in range(rng.randrange(1, 4)):
            if rng.random() < 0.5:
                x, y = float(rng.randrange(-3, W + 1)), float(rng.randrange(-3, H + 1))
                w, h = float(rng.randrange(-2, W + 4)), float(rng.randrange(-2, H + 4))
                ops.append("fillrect %d %d %d %d %s %s" % (FB(x), FB(y), FB(w), FB(h), rand_source(rng, W, H, cfg.get("sources")),
                                                         rand_opts(rng, cfg.get("modes"), cfg.get("aa"))))
            else:
                ops.append(draw_op(rng, W, H, cfg))
        return ops
    if rng.random() < cfg.get("p_clipstack", 0.06):
        # a stack of 2-4 clip rectangles in every containment relation (equal, containing the one below, contained in it,
        # overlapping), sometimes with a draw in between, then ALL of them popped, then draws: what was undone must be gone
        ops, n = [], rng.randrange(2, 5)
        r = rand_rect(rng, W, H)
        for j in range(n):
            ops.append("cliprect %d %d %d %d" % r)
            if rng.random() < 0.3:
                ops.append(draw_op(rng, W, H, cfg))
            c = rng.random()
            if c < 0.3:
                r = (r[0] - rng.randrange(0, 3), r[1] - rng.randrange(0, 3), r[2] + rng.randrange(0, 3), r[3] + rng.randrange(0, 3))   # contains it
            elif c < 0.6:
                r = (r[0] + rng.randrange(0, 2), r[1] + rng.randrange(0, 2), r[2] - rng.randrange(0, 2), r[3] - rng.randrange(0, 2))   # inside it
            elif c < 0.7:
                pass                                                                                                                # the same again
            else:
                r = rand_rect(rng, W, H)
        k = n if rng.random() < 0.7 else n - 1
        for j in range(k):
            ops.append("popclip")
            if rng.random() < 0.3:
                ops.append(draw_op(rng, W, H, cfg))
        for _ in range(rng.randrange(1, 3)):
            ops.append(draw_op(rng, W, H, cfg))
        for j in range(n - k):
            ops.append("popclip")
        return ops
    if rng.random() < 0.08:
        # a run of layer groups with the SAME opacity and blend mode under different clip rectangles (anything cached per
        # opacity, per size or per target between two pops shows here), sometimes an empty one in between
        a, m = gen.alpha_bits(rng), (3 if rng.random() < 0.7 else rng.randrange(gen.N_MODES))
        ops = []
        for g in range(rng.randrange(2, 4)):
            r = rand_rect(rng, W, H) if rng.random() < 0.8 else (0, 0, W, H)
            ops.append("cliprect %d %d %d %d" % r)
            ops.append("layer %d %d" % (a, m))
            for _ in range(rng.randrange(0, 3)):
                ops.append(draw_op(rng, W, H, cfg))
            ops.append("poplayer")
            ops.append("popclip")
        return ops
    ops, pops = [], []
    pre = []
    if rng.random() < 0.75:
        x0, y0 = rng.randrange(0, max(1, W // 2) + 1), rng.randrange(0, max(1, H // 2) + 1)
        pre.append(("cliprect %d %d %d %d" % (x0, y0, x0 + rng.randrange(1, W + 2), y0 + rng.randrange(1, H + 2)), "popclip"))
    if rng.random() < 0.7:
        pre.append(("clippath " + rand_path(rng, W, H, 0.2), "popclip"))
    if rng.random() < 0.3:
        pre.append(("cliprect %d %d %d %d" % rand_rect(rng, W, H), "popclip"))
    if rng.random() < 0.35:
        pre.append(("xf " + xf_tokens(rand_xf(rng)), None))
    rng.shuffle(pre)
    for o, pop in pre:
        ops.append(o)
        if pop:
            pops.append(pop)
    if rng.random() < 0.3:
        ops.append(draw_op(rng, W, H, cfg))
    nl = rng.choice([0, 1, 1, 1, 2])
    for _ in range(nl):
        ops.append("layer %d %d" % (gen.alpha_bits(rng), 3 if rng.random() < 0.4 else rng.randrange(gen.N_MODES)))
        pops.append("poplayer")
        if rng.random() < 0.3:
            ops.append("clippath " + rand_path(rng, W, H, 0.1)); pops.append("popclip")
    for _ in range(rng.randrange(1, 4)):
        ops.append(draw_op(rng, W, H, cfg))
    # pop in reverse order, sometimes popping a clip before the layer that was pushed under it
    pops.reverse()
    if len(pops) >= 2 and rng.random() < 0.3:
        i = rng.randrange(len(pops) - 1)
        pops[i], pops[i + 1] = pops[i + 1], pops[i]
    for p_ in pops:
        ops.append(p_)
        if rng.random() < 0.25:
            ops.append(draw_op(rng, W, H, cfg))
    return ops


WIDE = [(300, 2), (2, 300), (257, 3), (3, 258), (64, 9), (65, 5), (33, 17), (17, 31), (129, 4), (1030, 1), (1, 1030), (40, 40)]


def wide_dims(rng, cfg, W, H):
    """a few surfaces beyond the usual dozen pixels: past 16 / 32 / 64 / 128 / 256 / 1024 in one direction (chunked loops
    and their tails, narrow integer types for coordinates and strides)"""
    if rng.random() < cfg.get("p_wide", 0.03):
        return rng.choice(WIDE)
    return W, H


def init_pixels(rng, cfg, W, H):
    if cfg.get("init", "random") == "zero":
        return [0] * (W * H)
    if W * H > 600:
        a, b = gen.premul_pixel(rng), gen.premul_pixel(rng)
        return [a if rng.random() < 0.8 else b for _ in range(W * H)]
    return [gen.premul_pixel(rng) for _ in range(W * H)]


def rand_scene(rng, cid, cfg=None):
    """cfg keys: maxdim, nops, p_clip, p_layer, p_xf, draw_kinds, sources, modes, aa, curves, init ('zero'|'random')"""
    cfg = cfg or {}
    if rng.random() < cfg.get("p_structured", 0.45):
        maxdim = cfg.get("maxdim", 12)
        W, H = rng.randrange(2, maxdim + 1), rng.randrange(2, maxdim + 1)
        W, H = wide_dims(rng, cfg, W, H)
        px = init_pixels(rng, cfg, W, H)
        return "scene %d %d %d I %s ; %s" % (cid, W, H, " ".join(map(gen.hexpx, px)), " ; ".join(structured_ops(rng, W, H, cfg)))
    maxdim = cfg.get("maxdim", 12)
    W, H = rng.randrange(1, maxdim + 1), rng.randrange(1, maxdim + 1)
    if rng.random() < cfg.get("p_zero_dim", 0.02):
        W = 0 if rng.random() < 0.5 else W
        H = 0 if W else 0
    if W and H:
        W, H = wide_dims(rng, cfg, W, H)
    px = init_pixels(rng, cfg, W, H)
    ops = []
    stack = []      # 'clip' / 'layer' entries, to keep pops matched
    n = rng.randrange(1, cfg.get("nops", 8) + 1)
    for _ in range(n):
        c = rng.random()
        if c < cfg.get("p_xf", 0.12):
            ops.append("xf " + xf_tokens(rand_xf(rng)))
        elif c < cfg.get("p_xf", 0.12) + cfg.get("p_clip", 0.15):
            if rng.random() < 0.5:
                ops.append("cliprect %d %d %d %d" % rand_rect(rng, W, H))
            else:
                ops.append("clippath " + rand_path(rng, W, H, 0.2))
            stack.append("clip")
        elif c < cfg.get("p_xf", 0.12) + cfg.get("p_clip", 0.15) + cfg.get("p_layer", 0.1):
            ops.append("layer %d %d" % (gen.alpha_bits(rng), 3 if rng.random() < 0.5 else rng.randrange(gen.N_MODES)))
            stack.append("layer")
        elif c < cfg.get("p_xf", 0.12) + cfg.get("p_clip", 0.15) + cfg.get("p_layer", 0.1) + 0.12 and stack:
            # pop something (clips and layers are independent stacks in raqote)
            kind = rng.choice(stack)
            stack.remove(kind)
            ops.append("popclip" if kind == "clip" else "poplayer")
        else:
            ops.append(draw_op(rng, W, H, cfg))
    # close what is still open so the final surface shows the layers' content
    for kind in reversed(stack):
        ops.append("popclip" if kind == "clip" else "poplayer")
    return "scene %d %d %d I %s ; %s" % (cid, W, H, " ".join(map(gen.hexpx, px)), " ; ".join(ops))


def split_results(line):
    """'<id> | r1 | r2' -> (id, [r1, r2])"""
    parts = line.split(" | ")
    return parts[0].strip(), [p.strip() for p in parts[1:]]


def split_ops(case):
    """case line -> (header, [op strings])"""
    parts = case.split(" ; ")
    return parts[0], parts[1:]
