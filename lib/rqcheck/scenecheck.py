"""Running scene cases through implementation and model, comparing per op, classifying
disagreements with the extracted oracles, shrinking, and the property-independent oracles
evaluated on the implementation's own output (frame, premultiplication, idleness)."""
import subprocess
from . import build, scene, core


def augment(lines):
    p = subprocess.run([build.RQV, "aug"], input="\n".join(lines) + "\n", stdout=subprocess.PIPE,
                       stderr=subprocess.PIPE, text=True, timeout=3600)
    out = p.stdout.splitlines()
    if p.returncode != 0 or len(out) != len(lines):
        raise RuntimeError("harness aug failed: rc=%s stderr=%s" % (p.returncode, p.stderr[-1500:]))
    return out


class OpRes:
    __slots__ = ("raw", "state", "region", "panic")

    def __init__(self, s):
        self.raw = s
        if s.startswith("err") or s == "panic":
            self.panic, self.state, self.region = True, "panic", None
        else:
            self.panic = False
            if " # B" in s:
                self.state, r = s.split(" # B")
                self.state = self.state.strip()
                self.region = r.strip()
            else:
                self.state, self.region = s, None

    def parse(self):
        """-> dict(surface=[px], layer=(rect,[px]) or None, clip=str, idle=bool)"""
        t = self.state.split()
        i = 1
        surf = []
        while i < len(t) and t[i] not in ("L", "C"):
            surf.append(t[i]); i += 1
        layer = None
        if i < len(t) and t[i] == "L":
            rect = tuple(map(int, t[i + 1:i + 5])); i += 5
            lp = []
            while i < len(t) and t[i] != "C":
                lp.append(t[i]); i += 1
            layer = (rect, lp)
        clip = " ".join(t[i:i + 6])
        idle = t[-1] == "idle"
        ctm = tuple(t[i + 7:i + 13]) if len(t) > i + 12 and t[i + 6] == "T" else None
        return dict(surface=surf, layer=layer, clip=clip, idle=idle, ctm=ctm)


class SceneRun:
    def __init__(self, cases, aug, impl, model):
        self.cases, self.aug = cases, aug
        self.impl = [[OpRes(x) for x in scene.split_results(l)[1]] for l in impl]
        self.model = [[OpRes(x) for x in scene.split_results(l)[1]] for l in model]
        self.impl_raw, self.model_raw = impl, model

    def first_diff(self, i):
        a, b = self.impl[i], self.model[i]
        for k in range(max(len(a), len(b))):
            if k >= len(a) or k >= len(b) or a[k].state != b[k].state:
                return k
        return None


def run(lines):
    aug = augment(lines)
    for a in aug:
        if a.startswith("HANG "):
            # the crate did not return from a call made while preparing the case (stroke_to_path / flatten)
            raise ImplDied(a[5:] + "\n# the call did not return within the watchdog's time (hang)")
    impl, di = build.run_sharded(build.RQV, aug)
    model, dm = build.run_sharded(build.DRIVER, aug)
    if dm or len(model) != len(aug):
        raise RuntimeError("model driver failed: %s" % (dm,))
    if di or len(impl) != len(aug):
        k = min(len(impl), len(aug) - 1)
        raise ImplDied(aug[k])
    return SceneRun(lines, aug, impl, model)


class ImplDied(Exception):
    pass


def classify(sr, idxs):
    """specscene on the given case indices -> {idx: dict(k, frame, formula, cov, other)}"""
    lines = ["spec" + sr.aug[i] + " @@ " + sr.impl_raw[i] for i in idxs]
    out, died = build.run_sharded(build.DRIVER, lines)
    res = {}
    for i, o in zip(idxs, out):
        t = o.split()
        d = dict(k=int(t[2]))
        for kv in t[3:]:
            a, b = kv.split("=")
            d[a] = int(b)
        res[i] = d
    return res


def op_kind(opstr):
    return opstr.split()[0]


DRAW_KINDS = ("fill", "tfill", "stroke", "fillrect", "clear", "mask", "drawimage", "drawimagesize", "poplayer")


def dest_pixels(parsed):
    return parsed["layer"][1] if parsed["layer"] else parsed["surface"]


def frame_violations(sr, i):
    """C02 on the implementation's own output: for every drawing op, a destination pixel outside the
    model's may-change region must keep its value, and every buffer other than the destination too."""
    hdr, ops = scene.split_ops(sr.aug[i])
    bad = []
    init = hdr.split(" I ")[1].split() if " I " in hdr else []
    prev = dict(surface=init, layer=None)
    for k, op in enumerate(ops):
        if k >= len(sr.impl[i]) or k >= len(sr.model[i]) or sr.impl[i][k].panic or sr.model[i][k].panic:
            break
        cur = sr.impl[i][k].parse()
        kind = op_kind(op)
        if kind in DRAW_KINDS and sr.model[i][k].region not in (None, "err"):
            reg = sr.model[i][k].region
            if kind == "poplayer":
                # destination is what lies below the popped layer; not observable before the pop unless it is the surface
                before = prev["surface"] if cur["layer"] is None else None
                after = cur["surface"] if cur["layer"] is None else None
            else:
                before, after = dest_pixels(prev), dest_pixels(cur)
                if cur["layer"] is not None and prev["surface"] != cur["surface"]:
                    bad.append((k, "surface changed while a layer is open"))
            if before is not None and after is not None and len(before) == len(after) == len(reg):
                n = sum(1 for a, b, r in zip(before, after, reg) if r == "0" and a != b)
                if n:
                    bad.append((k, "%d pixel(s) outside shape/clip changed" % n))
        prev = cur
    return bad


def premul_violations(sr, i):
    bad = []
    for k, r in enumerate(sr.impl[i]):
        if r.panic:
            break
        p = r.parse()
        for name, px in (("surface", p["surface"]), ("layer", p["layer"][1] if p["layer"] else [])):
            for v in px:
                x = int(v, 16)
                a = x >> 24
                if ((x >> 16) & 255) > a or ((x >> 8) & 255) > a or (x & 255) > a:
                    bad.append((k, "%s pixel %s is not premultiplied" % (name, v)))
                    break
    return bad


def busy_violations(sr, i):
    return [(k, "rasteriser not idle after the call") for k, r in enumerate(sr.impl[i]) if not r.panic and not r.parse()["idle"]]


def truncate_case(aug_line, k):
    hdr, ops = scene.split_ops(aug_line)
    return " ; ".join([hdr] + ops[:k + 1])


def shrink(case_line, still_fails, max_rounds=40):
    """Drop ops while the failure persists. case_line is an un-augmented or augmented scene."""
    hdr, ops = scene.split_ops(case_line)
    rounds = 0
    changed = True
    while changed and rounds < max_rounds:
        changed = False
        for j in range(len(ops)):
            cand = ops[:j] + ops[j + 1:]
            # keep pops matched
            depth_l, ok = 0, []
            for o in cand:
                kind = op_kind(o)
                if kind == "layer":
                    depth_l += 1
                if kind == "poplayer":
                    if depth_l == 0:
                        continue
                    depth_l -= 1
                ok.append(o)
            ok += ["poplayer"] * depth_l
            line = " ; ".join([hdr] + ok)
            rounds += 1
            try:
                if ok and still_fails(line):
                    ops = ok
                    changed = True
                    break
            except Exception:
                pass
            if rounds >= max_rounds:
                break
    return " ; ".join([hdr] + ops)
