#!/bin/sh
# extract the model from the compiled Coq development and build the driver
set -e
cd "$(dirname "$0")"
rm -rf gen && mkdir gen && cd gen
coqc -Q ../../coq/theories RQ ../../coq/Extract.v > extract.log 2>&1 || { cat extract.log; exit 1; }
cp ../driver.ml .
ocamlfind ocamlopt -package str -linkpkg -w -a -I . $(ocamlfind ocamldep -sort *.mli *.ml) -o ../driver 2> build.log || { tail -30 build.log; exit 1; }
echo "driver built"
