(* Driver for the extracted model: reads case lines on stdin, prints one result line per case.
   All numbers in case files are decimal integers (floats as f32 bit patterns), pixels are hex. *)
open BinNums

let rec pos_of_int n = if n = 1 then Coq_xH else if n land 1 = 1 then Coq_xI (pos_of_int (n lsr 1)) else Coq_xO (pos_of_int (n lsr 1))
let z_of_int n = if n = 0 then Z0 else if n > 0 then Zpos (pos_of_int n) else Zneg (pos_of_int (-n))
let rec int_of_pos = function Coq_xH -> 1 | Coq_xO p -> 2 * int_of_pos p | Coq_xI p -> 2 * int_of_pos p + 1
let int_of_z = function Z0 -> 0 | Zpos p -> int_of_pos p | Zneg p -> - (int_of_pos p)
let zi s = z_of_int (int_of_string s)
let zhex s = z_of_int (int_of_string ("0x" ^ s))
let hex z = Printf.sprintf "%08x" (int_of_z z)
let err_name (e : Base.err) = match e with
  | Base.OutOfBounds -> "OutOfBounds" | Base.Overflow -> "Overflow" | Base.DivZero -> "DivZero"
  | Base.DebugAssert -> "DebugAssert" | Base.Unwrap -> "Unwrap" | Base.OutOfFuel -> "OutOfFuel"
  | Base.AllocSize -> "AllocSize" | Base.Unsupported -> "Unsupported" | Base.PixelOverflow -> "PixelOverflow"

let mode_of_int i = Stdlib.List.nth Pixel.all_modes i

(* split a token list at a marker *)
let rec take_until m = function
  | [] -> ([], [])
  | t :: r when t = m -> ([], r)
  | t :: r -> let (a, b) = take_until m r in (t :: a, b)

let pixels_line id = function
  | Base.Ok buf -> Printf.printf "%s ok %s\n" id (String.concat " " (Stdlib.List.map hex buf))
  | Base.Err e -> Printf.printf "%s err %s\n" id (err_name e)

(* surf <id> <kind> <param> dw dh sw sh x0 y0 x1 y1 dx dy D <pixels> S <pixels> *)
let run_surface toks =
  match toks with
  | id :: kind :: param :: dw :: dh :: sw :: sh :: x0 :: y0 :: x1 :: y1 :: dx :: dy :: "D" :: rest ->
    let (dpx, spx) = take_until "S" rest in
    let k = match kind with
      | "copy" -> Surface.CsCopy
      | "blend" -> Surface.CsBlend (mode_of_int (int_of_string param))
      | "alpha" -> Surface.CsAlpha (F32.unit_to_u8 (F32.of_bits (zi param)))
      | _ -> failwith "surface kind" in
    let r = Surface.surface_op k (zi dw) (zi dh) (Stdlib.List.map zhex dpx) (zi sw) (zi sh) (Stdlib.List.map zhex spx)
              { Rect.x0 = zi x0; Rect.y0 = zi y0; Rect.x1 = zi x1; Rect.y1 = zi y1 } (zi dx) (zi dy) in
    pixels_line id r
  | _ -> failwith "bad surf line"

(* surfspec: same as surf, followed by O <observed pixels> (or O panic): evaluates the C15 statement *)
let run_surface_spec toks =
  match toks with
  | id :: kind :: param :: dw :: dh :: sw :: sh :: x0 :: y0 :: x1 :: y1 :: dx :: dy :: "D" :: rest ->
    let (dpx, rest) = take_until "S" rest in
    let (spx, opx) = take_until "O" rest in
    let k = match kind with
      | "copy" -> Surface.CsCopy
      | "blend" -> Surface.CsBlend (mode_of_int (int_of_string param))
      | "alpha" -> Surface.CsAlpha (F32.unit_to_u8 (F32.of_bits (zi param)))
      | _ -> failwith "surface kind" in
    let ok = match opx with
      | ["panic"] -> false
      | _ -> Surface.surface_spec_ok k (zi dw) (zi dh) (Stdlib.List.map zhex dpx) (zi sw) (zi sh) (Stdlib.List.map zhex spx)
              { Rect.x0 = zi x0; Rect.y0 = zi y0; Rect.x1 = zi x1; Rect.y1 = zi y1 } (zi dx) (zi dy)
              (Stdlib.List.map zhex opx) in
    Printf.printf "%s spec %s\n" id (if ok then "ok" else "bad")
  | _ -> failwith "bad surfspec line"


(* ------------------------------------------------------------------ *)
(* scene cases: a token cursor *)
type cur = { toks : string array; mutable i : int }
let peek c = if c.i < Array.length c.toks then c.toks.(c.i) else ""
let next c = let t = c.toks.(c.i) in c.i <- c.i + 1; t
let nz c = zi (next c)
let nint c = int_of_string (next c)
let nf c = F32.of_bits (zi (next c))
let npt c = let x = nf c in let y = nf c in (x, y)
let nhex c = zhex (next c)
let rec ntimes n f = if n <= 0 then [] else let v = f () in v :: ntimes (n - 1) f
let nxf c = let a = nf c in let b = nf c in let cc = nf c in let d = nf c in let e = nf c in let f = nf c in
  { PathF.m11 = a; PathF.m12 = b; PathF.m21 = cc; PathF.m22 = d; PathF.m31 = e; PathF.m32 = f }
let nrect c = let a = nz c in let b = nz c in let cc = nz c in let d = nz c in
  { Rect.x0 = a; Rect.y0 = b; Rect.x1 = cc; Rect.y1 = d }

(* P <winding> <nops> ops... ; C ops carry K n quads *)
let npath c =
  (match next c with "P" -> () | t -> failwith ("expected P got " ^ t));
  let w = if nint c = 0 then Raster.NonZero else Raster.EvenOdd in
  let n = nint c in
  let ops = ntimes n (fun () ->
    match next c with
    | "M" -> PathF.MoveTo (npt c)
    | "L" -> PathF.LineTo (npt c)
    | "Q" -> let a = npt c in let b = npt c in PathF.QuadTo (a, b)
    | "C" -> let a = npt c in let b = npt c in let d = npt c in
      (match next c with "K" -> () | t -> failwith ("expected K got " ^ t));
      let k = nint c in
      let quads = ntimes k (fun () -> let p = npt c in let q = npt c in let r = npt c in ((p, q), r)) in
      PathF.CubicTo (a, b, d, quads)
    | "Z" -> PathF.Close
    | t -> failwith ("bad path op " ^ t)) in
  { PathF.p_ops = ops; PathF.p_winding = w }

let nimage c = let w = nz c in let h = nz c in
  let n = int_of_z w * int_of_z h in
  let data = ntimes (max n 0) (fun () -> nhex c) in
  { Shader.i_w = w; Shader.i_h = h; Shader.i_data = data }
let nspread c = match next c with
  | "pad" -> Shader.SpreadPad | "reflect" -> Shader.SpreadReflect | "repeat" -> Shader.SpreadRepeat
  | t -> failwith ("spread " ^ t)
let nstops c = let n = nint c in ntimes n (fun () -> let p = nf c in let col = nhex c in { Shader.gs_pos = p; Shader.gs_color = col })

exception Ctor_panic
let nsource c =
  match next c with
  | "solid" -> Shader.Solid (nhex c)
  | "image" -> let im = nimage c in
    let e = (match next c with "pad" -> Shader.ExtPad | "repeat" -> Shader.ExtRepeat | t -> failwith t) in
    let f = (match next c with "bilinear" -> Shader.Bilinear | "nearest" -> Shader.Nearest | t -> failwith t) in
    let t = nxf c in Shader.Image (im, e, f, t)
  | "linear" -> let st = nstops c in let sp = nspread c in let t = nxf c in Shader.LinearGradient (st, sp, t)
  | "radial" -> let st = nstops c in let sp = nspread c in let t = nxf c in Shader.RadialGradient (st, sp, t)
  | "linearc" -> let st = nstops c in let sp = nspread c in let a = npt c in let b = npt c in
    Shader.new_linear_gradient st a b sp
  | "radialc" -> let st = nstops c in let sp = nspread c in let a = npt c in let r = nf c in
    (match Shader.new_radial_gradient st a r sp with Some s -> s | None -> raise Ctor_panic)
  | "twocirclec" -> let st = nstops c in let sp = nspread c in let a = npt c in let r1 = nf c in let b = npt c in let r2 = nf c in
    Shader.new_two_circle_radial_gradient st a r1 b r2 sp
  | "sweepc" -> let st = nstops c in let sp = nspread c in let a = npt c in let a0 = nf c in let a1 = nf c in
    Shader.new_sweep_gradient st a a0 a1 sp
  | t -> failwith ("source " ^ t)
let nopts c = let m = mode_of_int (nint c) in let a = nf c in let aa = nint c <> 0 in
  { Target.o_blend = m; Target.o_alpha = a; Target.o_aa = aa }

let skip_to_bar c = while peek c <> ";" && peek c <> "" do ignore (next c) done

(* one op; stroke ops carry the crate's own stroked path after the token STROKED *)
let nop c =
  match next c with
  | "xf" -> Target.OpSetTransform (nxf c)
  | "cliprect" -> Target.OpPushClipRect (nrect c)
  | "clippath" -> Target.OpPushClip (npath c)
  | "popclip" -> Target.OpPopClip
  | "layer" -> let o = nf c in let m = mode_of_int (nint c) in Target.OpPushLayer (o, m)
  | "poplayer" -> Target.OpPopLayer
  | "fill" -> let p = npath c in let s = nsource c in let o = nopts c in Target.OpFill (p, s, o)
  | "tfill" -> let p = npath c in let s = nsource c in let o = nopts c in Target.OpFillPre (p, s, o)
  | "stroke" ->
    (* user path and style are for the implementation; the model fills the supplied outline *)
    while peek c <> "SRC" do ignore (next c) done; ignore (next c);
    let s = nsource c in let o = nopts c in
    (match next c with "STROKED" -> () | t -> failwith ("expected STROKED got " ^ t));
    let p = npath c in Target.OpStroke (p, s, o)
  | "fillrect" -> let x = nf c in let y = nf c in let w = nf c in let h = nf c in
    let s = nsource c in let o = nopts c in Target.OpFillRect (x, y, w, h, s, o)
  | "clear" -> Target.OpClear (nhex c)
  | "mask" -> let s = nsource c in let x = nz c in let y = nz c in let mw = nz c in let mh = nz c in
    let n = int_of_z mw * int_of_z mh in
    let data = ntimes (max n 0) (fun () -> nz c) in Target.OpMask (s, x, y, mw, mh, data)
  | "drawimage" -> let x = nf c in let y = nf c in let im = nimage c in let o = nopts c in Target.OpDrawImageAt (x, y, im, o)
  | "drawimagesize" -> let w = nf c in let h = nf c in let x = nf c in let y = nf c in let im = nimage c in let o = nopts c in
    Target.OpDrawImageSize (w, h, x, y, im, o)
  | "surf" -> let kind = next c in let param = next c in
    let k = (match kind with
      | "copy" -> Surface.CsCopy
      | "blend" -> Surface.CsBlend (mode_of_int (int_of_string param))
      | "alpha" -> Surface.CsAlpha (F32.unit_to_u8 (F32.of_bits (zi param)))
      | _ -> failwith "surf kind") in
    let im = nimage c in let r = nrect c in let dx = nz c in let dy = nz c in
    Target.OpSurface (k, im.Shader.i_w, im.Shader.i_h, im.Shader.i_data, r, dx, dy)
  | t -> failwith ("bad op " ^ t)

let fbits x = string_of_int (int_of_z (F32.to_bits x))
(* cheap order-sensitive hash of a byte mask, same function in the harness *)
let mask_hash l = Stdlib.List.fold_left (fun h z -> ((h * 31) + int_of_z z + 7) land 0xffffffff) 17 l

let state_string (st : Target.dt) =
  let b = Buffer.create 1024 in
  Buffer.add_string b "S";
  Stdlib.List.iter (fun z -> Buffer.add_char b ' '; Buffer.add_string b (hex z)) st.Target.d_buf;
  (match st.Target.d_layers with
   | l :: _ ->
     let r = l.Target.l_rect in
     Buffer.add_string b (Printf.sprintf " L %d %d %d %d" (int_of_z r.Rect.x0) (int_of_z r.Rect.y0) (int_of_z r.Rect.x1) (int_of_z r.Rect.y1));
     Stdlib.List.iter (fun z -> Buffer.add_char b ' '; Buffer.add_string b (hex z)) l.Target.l_buf
   | [] -> ());
  let cb = Target.clip_bounds st in
  Buffer.add_string b (Printf.sprintf " C %d %d %d %d %s" (int_of_z cb.Rect.x0) (int_of_z cb.Rect.y0) (int_of_z cb.Rect.x1) (int_of_z cb.Rect.y1)
    (match Target.top_clip_mask st with Some m -> string_of_int (mask_hash m) | None -> "none"));
  let t = st.Target.d_ctm in
  Buffer.add_string b (Printf.sprintf " T %s %s %s %s %s %s" (fbits t.PathF.m11) (fbits t.PathF.m12) (fbits t.PathF.m21) (fbits t.PathF.m22) (fbits t.PathF.m31) (fbits t.PathF.m32));
  Buffer.add_string b (if Raster.rast_idle st.Target.d_cur.PathF.rz then " idle" else " busy");
  Buffer.contents b

let is_drawing_op (o : Target.op) = match o with
  | Target.OpFill _ | Target.OpFillPre _ | Target.OpStroke _ | Target.OpFillRect _ | Target.OpClear _ | Target.OpMask _
  | Target.OpDrawImageAt _ | Target.OpDrawImageSize _ | Target.OpPopLayer -> true
  | _ -> false
let exact_coverage_op (o : Target.op) = match o with
  | Target.OpClear _ | Target.OpMask _ | Target.OpPopLayer -> true | _ -> false

let region_string st o =
  match Target.probe_region st o with
  | Base.Ok l -> " # B " ^ String.concat "" (Stdlib.List.map (fun z -> if int_of_z z = 0 then "0" else "1") l)
  | Base.Err _ -> " # B err"

let scene_header c =
  let id = next c in
  let w = nz c in let h = nz c in
  (match next c with "I" -> () | _ -> failwith "expected I");
  let n = int_of_z w * int_of_z h in
  let px = ntimes (max n 0) (fun () -> nhex c) in
  (id, Target.dt_new w h px)

(* scene <id> <W> <H> I <pixels> ; op ; op ... : one output line, op results separated by " | ";
   drawing ops also carry, after " # B ", the region of the destination the call may change *)
let run_scene toks =
  let c = { toks = Array.of_list toks; i = 0 } in
  let (id, st0) = scene_header c in
  let st = ref st0 in
  let out = Buffer.create 4096 in
  Buffer.add_string out id;
  (try
    while peek c = ";" do
      ignore (next c);
      let o = (try Some (nop c) with Ctor_panic -> None) in
      let r = (match o with Some o -> Target.step_op !st o | None -> Base.Err Base.Unwrap) in
      (match r, o with
       | Base.Ok st', Some o ->
         let reg = if is_drawing_op o then region_string !st o else "" in
         st := st'; Buffer.add_string out (" | " ^ state_string st' ^ reg)
       | Base.Err e, _ -> Buffer.add_string out (" | err " ^ err_name e); raise Exit
       | _ -> raise Exit)
    done
  with Exit -> ());
  print_endline (Buffer.contents out)

(* specscene <aug case tokens> @@ <impl result line>: locate the first op whose observable state
   differs between implementation and model and classify the differing destination pixels:
     frame   = pixel outside the region the call may change (C02)
     formula = pixel inside the region whose value no coverage 1..255 explains (C03)
     cov     = pixel inside the region explained by a different shape coverage (C01/C08 territory)
     other   = clip state, idle flag, non-destination buffer, panic
   output: <id> spec <opindex|-1> frame=<n> formula=<n> cov=<n> other=<n> *)
let parse_state (s : string) =
  (* returns (surface px, layer px option, rest string) *)
  let t = Array.of_list (Stdlib.List.filter (fun x -> x <> "") (String.split_on_char ' ' s)) in
  let n = Array.length t in
  let i = ref 1 in
  let surf = ref [] in
  while !i < n && t.(!i) <> "L" && t.(!i) <> "C" do surf := t.(!i) :: !surf; incr i done;
  let layer = if !i < n && t.(!i) = "L" then begin
      i := !i + 5; let l = ref [] in
      while !i < n && t.(!i) <> "C" do l := t.(!i) :: !l; incr i done; Some (Stdlib.List.rev !l) end else None in
  let rest = String.concat " " (Array.to_list (Array.sub t !i (n - !i))) in
  (Stdlib.List.rev !surf, layer, rest)

let run_specscene toks =
  let (ctoks, itoks) = take_until "@@" toks in
  let impl_line = String.concat " " itoks in
  let impl_parts = (match Str.split (Str.regexp_string " | ") impl_line with _ :: r -> r | [] -> []) in
  let c = { toks = Array.of_list ctoks; i = 0 } in
  let (id, st0) = scene_header c in
  let st = ref st0 in
  let k = ref 0 in
  let result = ref None in
  let impl = ref impl_parts in
  (try
    while peek c = ";" && !result = None do
      ignore (next c);
      let o = (try Some (nop c) with Ctor_panic -> None) in
      let r = (match o with Some o -> Target.step_op !st o | None -> Base.Err Base.Unwrap) in
      let iv = (match !impl with x :: tl -> impl := tl; String.trim x | [] -> "missing") in
      (match r, o with
       | Base.Ok st', Some o ->
         let ms = state_string st' in
         if ms = iv then st := st'
         else begin
           if iv = "panic" || iv = "missing" then result := Some (!k, 0, 0, 0, 1)
           else begin
             let (isurf, ilayer, irest) = parse_state iv in
             let (msurf, mlayer, mrest) = parse_state ms in
             let other = ref (if irest <> mrest then 1 else 0) in
             let (idest, mdest) = (match ilayer, mlayer with
               | Some a, Some b -> if isurf <> msurf then incr other; (a, b)
               | None, None -> (isurf, msurf)
               | _ -> incr other; ([], [])) in
             let frame = ref 0 and formula = ref 0 and cov = ref 0 in
             if is_drawing_op o && Stdlib.List.length idest = Stdlib.List.length mdest then begin
               let reg = (match Target.probe_region !st o with Base.Ok l -> Array.of_list (Stdlib.List.map int_of_z l) | Base.Err _ -> [||]) in
               let ia = Array.of_list idest and ma = Array.of_list mdest in
               let diff = ref [] in
               Array.iteri (fun j v -> if v <> ma.(j) then diff := j :: !diff) ia;
               let inside = Stdlib.List.filter (fun j -> j < Array.length reg && reg.(j) <> 0) !diff in
               frame := Stdlib.List.length !diff - Stdlib.List.length inside;
               if inside <> [] then begin
                 if exact_coverage_op o then formula := Stdlib.List.length inside
                 else begin
                   let unexplained = ref inside in
                   let v = ref 1 in
                   while !unexplained <> [] && !v <= 255 do
                     (match Target.step_forced !st o (z_of_int !v) with
                      | Base.Ok stf ->
                        let fa = Array.of_list (Stdlib.List.map hex (fst (Target.dest_of stf))) in
                        unexplained := Stdlib.List.filter (fun j -> j >= Array.length fa || fa.(j) <> ia.(j)) !unexplained
                      | Base.Err _ -> ());
                     incr v
                   done;
                   formula := Stdlib.List.length !unexplained;
                   cov := Stdlib.List.length inside - !formula
                 end
               end
             end else if idest <> mdest then incr other;
             result := Some (!k, !frame, !formula, !cov, !other)
           end
         end
       | Base.Err _, _ -> if iv <> "panic" then result := Some (!k, 0, 0, 0, 1) else raise Exit
       | _ -> raise Exit);
      incr k
    done
  with Exit -> ());
  (match !result with
   | Some (k, a, b, cc, d) -> Printf.printf "%s spec %d frame=%d formula=%d cov=%d other=%d\n" id k a b cc d
   | None -> Printf.printf "%s spec -1 frame=0 formula=0 cov=0 other=0\n" id)


(* ------------------------------------------------------------------ *)
(* path engine *)
let ptstr (x, y) = fbits x ^ " " ^ fbits y
let path_string (p : PathF.path) =
  let ops = p.PathF.p_ops in
  let b = Buffer.create 256 in
  Buffer.add_string b (Printf.sprintf "P %d %d" (match p.PathF.p_winding with Raster.NonZero -> 0 | Raster.EvenOdd -> 1) (Stdlib.List.length ops));
  Stdlib.List.iter (fun o -> match o with
    | PathF.MoveTo q -> Buffer.add_string b (" M " ^ ptstr q)
    | PathF.LineTo q -> Buffer.add_string b (" L " ^ ptstr q)
    | PathF.QuadTo (c, q) -> Buffer.add_string b (" Q " ^ ptstr c ^ " " ^ ptstr q)
    | PathF.CubicTo (c1, c2, q, _) -> Buffer.add_string b (" C " ^ ptstr c1 ^ " " ^ ptstr c2 ^ " " ^ ptstr q ^ " K 0")
    | PathF.Close -> Buffer.add_string b " Z") ops;
  Buffer.contents b
let path_result id = function
  | Base.Ok p -> Printf.printf "%s ok %s\n" id (path_string p)
  | Base.Err e -> Printf.printf "%s err %s\n" id (err_name e)
let expect c t = let x = next c in if x <> t then failwith ("expected " ^ t ^ " got " ^ x)
let nstyle c =
  expect c "STYLE";
  let w = nf c in
  let cap = (match next c with "butt" -> PathOps.CapButt | "round" -> PathOps.CapRound | "square" -> PathOps.CapSquare | t -> failwith t) in
  let join = (match next c with "miter" -> PathOps.JoinMiter | "round" -> PathOps.JoinRound | "bevel" -> PathOps.JoinBevel | t -> failwith t) in
  let ml = nf c in
  let n = nint c in
  let dashes = ntimes n (fun () -> nf c) in
  let off = nf c in
  ({ PathOps.s_width = w; PathOps.s_cap = cap; PathOps.s_join = join; PathOps.s_miter = ml }, dashes, off)

let run_path kind toks =
  let c = { toks = Array.of_list toks; i = 0 } in
  let id = next c in
  match kind with
  | "pcontains" ->
    let _tol = nf c in let x = nf c in let y = nf c in
    let _p = npath c in
    expect c "FLAT";
    let flat = npath c in
    (match PathOps.contains_point_flat flat x y with
     | Base.Ok b -> Printf.printf "%s ok %s\n" id (if b then "true" else "false")
     | Base.Err e -> Printf.printf "%s err %s\n" id (err_name e))
  | "pflatten" ->
    let _tol = nf c in
    let p = npath c in
    expect c "ORACLE";
    let n = nint c in
    let oracle = ntimes n (fun () -> let k = nint c in ntimes k (fun () -> npt c)) in
    path_result id (Base.Ok (PathOps.flatten p oracle))
  | "pdash" ->
    let n = nint c in
    let arr = ntimes n (fun () -> nf c) in
    let off = nf c in
    let p = npath c in
    path_result id (PathOps.dash_path arr p off)
  | "pstroke" ->
    let (st, _, _) = nstyle c in
    let p = npath c in
    path_result id (PathOps.stroke_to_path p st)
  | "pcontz" ->
    (* exact coordinates: winding x y n (M|L x y | Z)* ; prints code-model and declarative answers *)
    let rule = if nint c = 0 then Raster.NonZero else Raster.EvenOdd in
    let x = nz c in let y = nz c in
    let n = nint c in
    let ops = ntimes n (fun () -> match next c with
      | "M" -> let a = nz c in let b = nz c in Contains.ZMove (a, b)
      | "L" -> let a = nz c in let b = nz c in Contains.ZLine (a, b)
      | "Z" -> Contains.ZClose
      | t -> failwith ("pcontz op " ^ t)) in
    Printf.printf "%s ok %b %b\n" id (Contains.contains_Z rule ops x y) (Contains.contains_spec rule ops x y)
  | "prect" ->
    let x = nf c in let y = nf c in let w = nf c in let h = nf c in
    path_result id (Base.Ok { PathF.p_ops = PathOps.builder_rect x y w h; PathF.p_winding = Raster.NonZero })
  | "ptransform" ->
    let t = nxf c in let p = npath c in
    path_result id (Base.Ok (PathOps.path_transform t p))
  | "pbuild" ->
    (* a sequence of PathBuilder calls (no arc: lyon's arc is a parameter of the model and is never consulted here) *)
    let n = nint c in
    let calls = ntimes n (fun () -> match next c with
      | "m" -> let x = nf c in let y = nf c in PathShape.BMoveTo (x, y)
      | "l" -> let x = nf c in let y = nf c in PathShape.BLineTo (x, y)
      | "q" -> let a = nf c in let b = nf c in let x = nf c in let y = nf c in PathShape.BQuadTo (a, b, x, y)
      | "c" -> let a = nf c in let b = nf c in let d = nf c in let e = nf c in let x = nf c in let y = nf c in
        PathShape.BCubicTo (a, b, d, e, x, y, [])
      | "z" -> PathShape.BClose
      | "r" -> let x = nf c in let y = nf c in let w = nf c in let h = nf c in PathShape.BRect (x, y, w, h)
      | t -> failwith ("pbuild call " ^ t)) in
    let no_arc _ _ _ _ _ = failwith "arc oracle consulted" in
    path_result id (Base.Ok (PathShape.b_run no_arc PathShape.b_new calls))
  | _ -> failwith ("path kind " ^ kind)


(* fmt <id> W H n <n pixels> k v a r g b : word/byte views, from_vec, PNG pixel mapping, colour conversions *)
let run_fmt toks =
  let c = { toks = Array.of_list toks; i = 0 } in
  let id = next c in
  let w = nz c in let h = nz c in
  let n = nint c in
  let px = ntimes n (fun () -> nhex c) in
  let k = nz c in let v = nz c in
  let a = nz c in let r = nz c in let g = nz c in let b = nz c in
  let buf = PixelFormat.from_vec w h px in
  let bytes = PixelFormat.byte_view buf in
  let nb = Stdlib.List.length bytes in
  let buf2 = if nb = 0 then buf else PixelFormat.set_byte buf (z_of_int (int_of_z k mod nb)) v in
  let ints l = String.concat " " (Stdlib.List.map (fun z -> string_of_int (int_of_z z)) l) in
  let hexs l = String.concat " " (Stdlib.List.map hex l) in
  let (((fa, fr), fg), fb) = PixelFormat.from_unpremultiplied_argb a r g b in
  Printf.printf "%s ok W %s B %s M %s P %d %d %s U %s F %d %d %d %d\n" id (hexs buf) (ints bytes) (hexs buf2)
    (int_of_z w) (int_of_z h) (ints (PixelFormat.png_bytes buf)) (hex (PixelFormat.to_u32 a r g b))
    (int_of_z fa) (int_of_z fr) (int_of_z fg) (int_of_z fb)

let () =
  try
    while true do
      let line = input_line stdin in
      let toks = Stdlib.List.filter (fun s -> s <> "") (String.split_on_char ' ' line) in
      match toks with
      | [] -> ()
      | "surf" :: rest -> run_surface rest
      | "surfspec" :: rest -> run_surface_spec rest
      | "scene" :: rest -> run_scene rest
      | "fmt" :: rest -> run_fmt rest
      | "specscene" :: rest -> run_specscene rest
      | ("pcontains" | "pflatten" | "pdash" | "pstroke" | "prect" | "ptransform" | "pcontz" | "pbuild" as k) :: rest -> run_path k rest
      | t :: _ -> failwith ("unknown case kind " ^ t)
    done
  with End_of_file -> ()
