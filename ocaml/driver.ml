(* Driver for the extracted model: reads case lines on stdin, prints one result line per case.
   All numbers in case files are decimal integers (floats as f32 bit patterns), pixels are hex. *)
open BinNums

let rec pos_of_int n = if n = 1 then Coq_xH else if n land 1 = 1 then Coq_xI (pos_of_int (n lsr 1)) else Coq_xO (pos_of_int (n lsr 1))
let z_of_int n = if n = 0 then Z0 else if n > 0 then Zpos (pos_of_int n) else Zneg (pos_of_int (-n))
let rec int_of_pos = function Coq_xH -> 1 | Coq_xO p -> 2 * int_of_pos p | Coq_xI p -> 2 * int_of_pos p + 1
let int_of_z = function Z0 -> 0 | Zpos p -> int_of_pos p | Zneg p -> - (int_of_pos p)
let zi s = z_of_int (int_of_string s)
let zhex s = z_of_int (int_of_string ("0x" ^ s))
let hex z = Printf.sprintf "%08x" (int_of_z z)
let err_name (e : Base.err) = match e with
  | Base.OutOfBounds -> "OutOfBounds" | Base.Overflow -> "Overflow" | Base.DivZero -> "DivZero"
  | Base.DebugAssert -> "DebugAssert" | Base.Unwrap -> "Unwrap" | Base.OutOfFuel -> "OutOfFuel"
  | Base.AllocSize -> "AllocSize" | Base.Unsupported -> "Unsupported" | Base.PixelOverflow -> "PixelOverflow"

let mode_of_int i = Stdlib.List.nth Pixel.all_modes i

(* split a token list at a marker *)
let rec take_until m = function
  | [] -> ([], [])
  | t :: r when t = m -> ([], r)
  | t :: r -> let (a, b) = take_until m r in (t :: a, b)

let pixels_line id = function
  | Base.Ok buf -> Printf.printf "%s ok %s\n" id (String.concat " " (Stdlib.List.map hex buf))
  | Base.Err e -> Printf.printf "%s err %s\n" id (err_name e)

(* surf <id> <kind> <param> dw dh sw sh x0 y0 x1 y1 dx dy D <pixels> S <pixels> *)
let run_surface toks =
  match toks with
  | id :: kind :: param :: dw :: dh :: sw :: sh :: x0 :: y0 :: x1 :: y1 :: dx :: dy :: "D" :: rest ->
    let (dpx, spx) = take_until "S" rest in
    let k = match kind with
      | "copy" -> Surface.CsCopy
      | "blend" -> Surface.CsBlend (mode_of_int (int_of_string param))
      | "alpha" -> Surface.CsAlpha (F32.unit_to_u8 (F32.of_bits (zi param)))
      | _ -> failwith "surface kind" in
    let r = Surface.surface_op k (zi dw) (zi dh) (Stdlib.List.map zhex dpx) (zi sw) (zi sh) (Stdlib.List.map zhex spx)
              { Rect.x0 = zi x0; Rect.y0 = zi y0; Rect.x1 = zi x1; Rect.y1 = zi y1 } (zi dx) (zi dy) in
    pixels_line id r
  | _ -> failwith "bad surf line"

(* surfspec: same as surf, followed by O <observed pixels> (or O panic): evaluates the C15 statement *)
let run_surface_spec toks =
  match toks with
  | id :: kind :: param :: dw :: dh :: sw :: sh :: x0 :: y0 :: x1 :: y1 :: dx :: dy :: "D" :: rest ->
    let (dpx, rest) = take_until "S" rest in
    let (spx, opx) = take_until "O" rest in
    let k = match kind with
      | "copy" -> Surface.CsCopy
      | "blend" -> Surface.CsBlend (mode_of_int (int_of_string param))
      | "alpha" -> Surface.CsAlpha (F32.unit_to_u8 (F32.of_bits (zi param)))
      | _ -> failwith "surface kind" in
    let ok = match opx with
      | ["panic"] -> false
      | _ -> Surface.surface_spec_ok k (zi dw) (zi dh) (Stdlib.List.map zhex dpx) (zi sw) (zi sh) (Stdlib.List.map zhex spx)
              { Rect.x0 = zi x0; Rect.y0 = zi y0; Rect.x1 = zi x1; Rect.y1 = zi y1 } (zi dx) (zi dy)
              (Stdlib.List.map zhex opx) in
    Printf.printf "%s spec %s\n" id (if ok then "ok" else "bad")
  | _ -> failwith "bad surfspec line"

let () =
  try
    while true do
      let line = input_line stdin in
      let toks = Stdlib.List.filter (fun s -> s <> "") (String.split_on_char ' ' line) in
      match toks with
      | [] -> ()
      | "surf" :: rest -> run_surface rest
      | "surfspec" :: rest -> run_surface_spec rest
      | t :: _ -> failwith ("unknown case kind " ^ t)
    done
  with End_of_file -> ()
